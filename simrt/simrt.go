// Package simrt is the cooperative scheduler runtime of the streamsql simulator
// (DESIGN.md 2.4). It is copied into the scratch tree as utils/simrt; the instrumentation
// pass inserts calls to Yield / Acquire / Release. When no simulation is active every hook
// is a nil check.
//
// Contract: exactly one goroutine (the scheduler S, the synctest bubble's root) calls Run*;
// S never executes instrumented code. Every other goroutine of the bubble reaches hooks and
// parks there until S grants it. One PRNG decides every grant, every clock advance and the
// runtime seam words; decisions are recorded and can be replayed.
package simrt

import (
	"errors"
	"fmt"
	"sort"
	"sync"
	"testing/synctest"
	"time"
)

// Decision is one scheduler decision. K: "r" run goroutine G parked at site S; "a" advance
// the fake clock by D although goroutines are runnable; "x" lenient-replay placeholder
// ("default decision": keep running the same goroutine, never advance time unless idle).
type Decision struct {
	K string `json:"k"`
	G int    `json:"g,omitempty"`
	S string `json:"s,omitempty"`
	D int64  `json:"d,omitempty"`
}

type waiter struct {
	gid   uint64
	label int
	site  string
	lock  any // nil for a plain yield
	write bool
	ch    chan struct{}
	seq   int // arrival step
}

type lockState struct {
	writer  bool
	readers int
	writerG int         // label of the goroutine holding the write lock
	readerG map[int]int // label -> number of read locks held
}

// Policy selects how S picks among eligible goroutines.
type Policy struct {
	Kind       string  `json:"kind"` // uniform | sticky | pct | fair
	StickyP    float64 `json:"sticky_p,omitempty"`
	AdvProb    float64 `json:"adv_prob,omitempty"`
	AdvChoices []int64 `json:"adv_choices,omitempty"` // ns
	PCTDepth   int     `json:"pct_depth,omitempty"`
	PCTHorizon int     `json:"pct_horizon,omitempty"`
	// Starvation windows: at step From pick a victim goroutine (by PRNG) and do not run it
	// for Len steps while anything else is eligible.
	Starve []StarveWin `json:"starve,omitempty"`
	// MaxStarve bounds how many grants an eligible goroutine can be passed over (default 400)
	MaxStarve int `json:"max_starve,omitempty"`
}

type StarveWin struct {
	From int `json:"from"`
	Len  int `json:"len"`
}

// Rand is a small PCG-style generator owned by the simulator (no global state).
type Rand struct{ s uint64 }

func NewRand(seed uint64) *Rand { r := &Rand{seed*0x9E3779B97F4A7C15 + 0x1234567}; r.Uint64(); return r }
func (r *Rand) Uint64() uint64 {
	r.s += 0x9E3779B97F4A7C15
	x := r.s
	x ^= x >> 30
	x *= 0xBF58476D1CE4E5B9
	x ^= x >> 27
	x *= 0x94D049BB133111EB
	x ^= x >> 31
	return x
}
func (r *Rand) Intn(n int) int {
	if n <= 0 {
		return 0
	}
	return int(r.Uint64() % uint64(n))
}
func (r *Rand) Float64() float64 { return float64(r.Uint64()>>11) / (1 << 53) }
func (r *Rand) Bool(p float64) bool { return r.Float64() < p }

// Sim is one simulation.
type Sim struct {
	mu      sync.Mutex
	parked  []*waiter
	locks   map[any]*lockState
	labels  map[uint64]int
	roles   []string // label -> first park site
	rng     *Rand
	envRng  *Rand // runtime seeds (select poll order, map seeds): one stream, advanced once per grant, independent of how decisions are produced (drawn or replayed)
	pol     Policy
	wake    chan struct{}
	step    int
	lastG   int
	prio    map[int]float64
	pctCP   map[int]bool
	victim  int
	victimT int // starve until step

	replay    []Decision
	replayPos int
	strict    bool

	Trace      []Decision
	Steps      int
	Advances   int
	IdleWaits  int
	Diverged   int // lenient replay: decisions that could not be honoured
	Ties       int // unlabeled goroutines that first parked at the same site in the same step
	Preempt    int // grants that switched goroutine while the previous one was still eligible
	SwitchSet  map[string]struct{}
	lastSite   string
	MaxIdle    time.Duration
	start      time.Time
	OnGrant    func(step int, label int, site string)
	Unreleased int
	Forced     int // grants forced by the starvation bound
	AdvTotal   time.Duration
	AdvLog     []AdvRec // forced clock advances: global step at which they happened and their size
}

// AdvRec is one forced clock advance.
type AdvRec struct {
	Step int
	D    time.Duration
}

var cur *Sim

// Activate installs a new simulation. Must be called by S before anything else is created.
func Activate(seed uint64, pol Policy) *Sim {
	s := &Sim{
		locks: map[any]*lockState{}, labels: map[uint64]int{}, rng: NewRand(seed), pol: pol,
		wake: make(chan struct{}, 1), prio: map[int]float64{}, pctCP: map[int]bool{},
		victim: -1, lastG: -1, SwitchSet: map[string]struct{}{}, MaxIdle: time.Hour, start: time.Now(),
	}
	if pol.Kind == "pct" {
		h := pol.PCTHorizon
		if h <= 0 {
			h = 2000
		}
		for i := 0; i < pol.PCTDepth; i++ {
			s.pctCP[s.rng.Intn(h)] = true
		}
	}
	cur = s
	// A replayed run takes its decisions from the file and draws nothing for them; the runtime
	// seeds must not depend on that, or a replay sees other map orders than the recorded run.
	s.envRng = &Rand{s.rng.s}
	SetRuntimeSeeds(s.envRng.Uint64()|1, s.envRng.Uint64()|1)
	return s
}

// Deactivate turns every hook back into a no-op and restores shipped runtime behaviour.
func Deactivate() { cur = nil; SetRuntimeSeeds(0, 0) }

// Active reports whether a simulation is running.
func Active() bool { return cur != nil }

// SetPolicy switches policy (e.g. to "fair" for the settle phase).
func (s *Sim) SetPolicy(p Policy) { s.pol = p }

// SetReplay makes S take its decisions from decs. strict: any decision that cannot be
// honoured is an error (exact replay); lenient: fall back to the default decision.
func (s *Sim) SetReplay(decs []Decision, strict bool) { s.replay = decs; s.replayPos = 0; s.strict = strict }

// Now is the fake time since the start of the simulation.
func (s *Sim) Now() time.Duration { return time.Since(s.start) }

// Step is the global event sequence number (number of grants so far).
func (s *Sim) Step() int { return s.step }

func (s *Sim) park(w *waiter) {
	w.gid = simGoid()
	s.mu.Lock()
	w.seq = s.step
	s.parked = append(s.parked, w)
	s.mu.Unlock()
	select {
	case s.wake <- struct{}{}:
	default:
	}
	<-w.ch
}

// Yield parks the calling goroutine until S grants it.
func Yield(site string) {
	s := cur
	if s == nil {
		return
	}
	s.park(&waiter{site: site, ch: make(chan struct{})})
}

// Acquire parks until S grants the goroutine and S's model of mutex m admits it.
func Acquire(m any, write bool, site string) {
	s := cur
	if s == nil {
		return
	}
	s.park(&waiter{site: site, lock: m, write: write, ch: make(chan struct{})})
}

// TryAcquire records the outcome of a real TryLock / TryRLock in S's model of mutex m.
func TryAcquire(m any, write bool, ok bool) bool {
	s := cur
	if s == nil || !ok {
		return ok
	}
	gid := simGoid()
	s.mu.Lock()
	ls := s.locks[m]
	if ls == nil {
		ls = &lockState{readerG: map[int]int{}}
		s.locks[m] = ls
	}
	g := s.labels[gid]
	if write {
		ls.writer, ls.writerG = true, g
	} else {
		ls.readers++
		ls.readerG[g]++
	}
	s.mu.Unlock()
	return ok
}

// Release updates S's model of mutex m.
func Release(m any, write bool) {
	s := cur
	if s == nil {
		return
	}
	gid := simGoid()
	s.mu.Lock()
	if ls := s.locks[m]; ls != nil {
		if write {
			ls.writer = false
		} else if ls.readers > 0 {
			ls.readers--
			g := s.labels[gid]
			if ls.readerG[g] > 0 {
				ls.readerG[g]--
			} else {
				for k, n := range ls.readerG { // released by another goroutine (hand-off)
					if n > 0 {
						ls.readerG[k]--
						break
					}
				}
			}
		}
	} else {
		s.Unreleased++
	}
	s.mu.Unlock()
}

func (s *Sim) eligible(w *waiter) bool {
	if w.lock == nil {
		return true
	}
	ls := s.locks[w.lock]
	if ls == nil {
		return true
	}
	if w.write {
		return !ls.writer && ls.readers == 0
	}
	return !ls.writer
}

// Spawn starts f as a new goroutine of the bubble; it parks before running f.
func (s *Sim) Spawn(name string, f func()) *Task {
	t := &Task{Name: name}
	go func() {
		Yield("spawn:" + name)
		defer func() { t.done = true }()
		f()
	}()
	return t
}

// Task is a goroutine started with Spawn.
type Task struct {
	Name string
	done bool
}

func (t *Task) Done() bool { return t.done }

// Errors returned by Run.
var (
	ErrMaxSteps = errors.New("step budget exhausted")
	ErrDeadline = errors.New("simulated-time deadline passed")
)

// StuckError: nothing became runnable for MaxIdle of simulated time.
type StuckError struct {
	Parked    []string // sites of parked (ineligible) lock waiters
	LockCycle bool
	Cycle     bool // a wait-for cycle among lock waiters was found (definite deadlock)
}

func (e *StuckError) Error() string {
	return fmt.Sprintf("stuck: no runnable goroutine for the idle budget; lock waiters: %v", e.Parked)
}

// Role returns the first park site of goroutine label g.
func (s *Sim) Role(g int) string {
	if g >= 0 && g < len(s.roles) {
		return s.roles[g]
	}
	return ""
}

// NumGoroutines is the number of goroutines that have parked at least once.
func (s *Sim) NumGoroutines() int { return len(s.roles) }

// Run drives the simulation until cond() holds (checked whenever every goroutine is parked or
// durably blocked), or the step budget / simulated deadline is exhausted.
func (s *Sim) Run(cond func() bool, maxSteps int, deadline time.Duration) error {
	budget := s.Steps + maxSteps
	for {
		synctest.Wait()
		select {
		case <-s.wake:
		default:
		}
		if cond() {
			return nil
		}
		if s.Steps >= budget {
			return ErrMaxSteps
		}
		if deadline > 0 && s.Now() > deadline {
			return ErrDeadline
		}
		s.mu.Lock()
		// label newcomers canonically: by arrival step, then site
		var fresh []*waiter
		for _, w := range s.parked {
			if _, ok := s.labels[w.gid]; !ok {
				fresh = append(fresh, w)
			}
		}
		if len(fresh) > 1 {
			sort.SliceStable(fresh, func(i, j int) bool {
				if fresh[i].seq != fresh[j].seq {
					return fresh[i].seq < fresh[j].seq
				}
				return fresh[i].site < fresh[j].site
			})
			for i := 1; i < len(fresh); i++ {
				if fresh[i].seq == fresh[i-1].seq && fresh[i].site == fresh[i-1].site {
					s.Ties++
				}
			}
		}
		for _, w := range fresh {
			s.labels[w.gid] = len(s.roles)
			s.roles = append(s.roles, w.site)
		}
		var cands []*waiter
		for _, w := range s.parked {
			w.label = s.labels[w.gid]
			if s.eligible(w) {
				cands = append(cands, w)
			}
		}
		sort.Slice(cands, func(i, j int) bool { return cands[i].label < cands[j].label })
		if cyc := s.lockCycle(); cyc != nil {
			s.mu.Unlock()
			return &StuckError{Parked: cyc, LockCycle: true, Cycle: true}
		}
		if len(cands) == 0 {
			var lw []string
			for _, w := range s.parked {
				lw = append(lw, w.site)
			}
			s.mu.Unlock()
			s.IdleWaits++
			wait := s.MaxIdle
			if deadline > 0 {
				if rem := deadline - s.Now(); rem < wait {
					wait = rem + time.Nanosecond
				}
			}
			t := time.NewTimer(wait)
			select {
			case <-s.wake:
				t.Stop()
			case <-t.C:
				synctest.Wait()
				if cond() {
					return nil
				}
				if deadline > 0 && s.Now() > deadline {
					return ErrDeadline
				}
				sort.Strings(lw)
				return &StuckError{Parked: lw, LockCycle: len(lw) > 0}
			}
			continue
		}
		d, err := s.decide(cands)
		if err != nil {
			s.mu.Unlock()
			return err
		}
		if d.K == "a" {
			s.mu.Unlock()
			s.Advances++
			s.AdvTotal += time.Duration(d.D)
			s.AdvLog = append(s.AdvLog, AdvRec{Step: s.step, D: time.Duration(d.D)})
			s.Trace = append(s.Trace, d)
			time.Sleep(time.Duration(d.D))
			continue
		}
		var w *waiter
		for _, c := range cands {
			if c.label == d.G {
				w = c
				break
			}
		}
		for k, p := range s.parked {
			if p == w {
				s.parked = append(s.parked[:k], s.parked[k+1:]...)
				break
			}
		}
		if w.lock != nil {
			ls := s.locks[w.lock]
			if ls == nil {
				ls = &lockState{readerG: map[int]int{}}
				s.locks[w.lock] = ls
			}
			if w.write {
				ls.writer = true
				ls.writerG = w.label
			} else {
				ls.readers++
				ls.readerG[w.label]++
			}
		}
		if s.lastG >= 0 && s.lastG != w.label {
			for _, c := range cands {
				if c.label == s.lastG {
					s.Preempt++
					break
				}
			}
			s.SwitchSet[s.lastSite+">"+w.site] = struct{}{}
		}
		s.lastG = w.label
		s.lastSite = w.site
		s.step++
		s.Steps++
		s.Trace = append(s.Trace, Decision{K: "r", G: w.label, S: w.site})
		SetRuntimeSeeds(s.envRng.Uint64()|1, s.envRng.Uint64()|1)
		if s.OnGrant != nil {
			s.OnGrant(s.step, w.label, w.site)
		}
		s.mu.Unlock()
		close(w.ch)
	}
}

func find(cands []*waiter, label int) *waiter {
	for _, c := range cands {
		if c.label == label {
			return c
		}
	}
	return nil
}

func (s *Sim) defaultPick(cands []*waiter) *waiter {
	if w := find(cands, s.lastG); w != nil {
		return w
	}
	return cands[0]
}

func (s *Sim) decide(cands []*waiter) (Decision, error) {
	if s.replay != nil {
		if s.replayPos < len(s.replay) {
			d := s.replay[s.replayPos]
			s.replayPos++
			switch d.K {
			case "a":
				return d, nil
			case "r":
				if w := find(cands, d.G); w != nil && w.site == d.S {
					return d, nil
				}
				// lenient: same site, any goroutine
				if !s.strict {
					for _, c := range cands {
						if c.site == d.S {
							s.Diverged++
							return Decision{K: "r", G: c.label, S: c.site}, nil
						}
					}
				}
				if s.strict {
					var have []string
					for _, c := range cands {
						have = append(have, fmt.Sprintf("g%d@%s", c.label, c.site))
					}
					return d, fmt.Errorf("replay diverged at decision %d: want g%d@%s, eligible %v", s.replayPos-1, d.G, d.S, have)
				}
				s.Diverged++
			}
			w := s.defaultPick(cands)
			return Decision{K: "r", G: w.label, S: w.site}, nil
		}
		if s.strict {
			return Decision{}, fmt.Errorf("replay exhausted after %d decisions", len(s.replay))
		}
		w := s.defaultPick(cands)
		return Decision{K: "r", G: w.label, S: w.site}, nil
	}
	p := &s.pol
	if p.AdvProb > 0 && len(p.AdvChoices) > 0 && s.rng.Bool(p.AdvProb) {
		return Decision{K: "a", D: p.AdvChoices[s.rng.Intn(len(p.AdvChoices))]}, nil
	}
	// starvation windows
	for _, sw := range p.Starve {
		if s.Steps == sw.From {
			s.victim = cands[s.rng.Intn(len(cands))].label
			s.victimT = s.Steps + sw.Len
		}
	}
	// bounded unfairness: tickers keep some goroutines runnable forever, so a strict
	// priority / sticky policy could starve a goroutine for the whole run; anything that has
	// been eligible for MaxStarve grants runs next (oldest first)
	maxStarve := p.MaxStarve
	if maxStarve <= 0 {
		maxStarve = 400
	}
	var oldest *waiter
	for _, c := range cands {
		if s.step-c.seq > maxStarve && (oldest == nil || c.seq < oldest.seq) {
			oldest = c
		}
	}
	if oldest != nil {
		s.Forced++
		return Decision{K: "r", G: oldest.label, S: oldest.site}, nil
	}
	pool := cands
	if s.victim >= 0 && s.Steps < s.victimT && len(cands) > 1 {
		pool = nil
		for _, c := range cands {
			if c.label != s.victim {
				pool = append(pool, c)
			}
		}
	}
	var w *waiter
	switch p.Kind {
	case "sticky":
		if lw := find(pool, s.lastG); lw != nil && s.rng.Bool(p.StickyP) {
			w = lw
		} else {
			w = pool[s.rng.Intn(len(pool))]
		}
	case "pct":
		for _, c := range pool {
			if _, ok := s.prio[c.label]; !ok {
				s.prio[c.label] = 1 + s.rng.Float64()
			}
		}
		if s.pctCP[s.Steps] && s.lastG >= 0 {
			s.prio[s.lastG] = s.rng.Float64() * 0.5 / float64(1+s.Steps)
		}
		for _, c := range pool {
			if w == nil || s.prio[c.label] > s.prio[w.label] {
				w = c
			}
		}
	default: // uniform, fair
		w = pool[s.rng.Intn(len(pool))]
	}
	return Decision{K: "r", G: w.label, S: w.site}, nil
}

// lockCycle looks for a wait-for cycle among parked lock waiters: waiter -> goroutines holding
// the mutex it waits for. A goroutine waiting for a mutex it holds itself (RLock held, Lock
// requested) is a cycle of length one. Returns the sites on the cycle, or nil. Caller holds s.mu.
func (s *Sim) lockCycle() []string {
	waits := map[int]*waiter{}
	for _, w := range s.parked {
		if w.lock != nil && !s.eligible(w) {
			waits[w.label] = w
		}
	}
	if len(waits) == 0 {
		return nil
	}
	holders := func(w *waiter) []int {
		ls := s.locks[w.lock]
		if ls == nil {
			return nil
		}
		var hs []int
		if ls.writer {
			hs = append(hs, ls.writerG)
		}
		for g, n := range ls.readerG {
			if n > 0 {
				hs = append(hs, g)
			}
		}
		sort.Ints(hs)
		return hs
	}
	labels := make([]int, 0, len(waits))
	for g := range waits {
		labels = append(labels, g)
	}
	sort.Ints(labels)
	for _, start := range labels {
		// DFS over "waits for" edges restricted to goroutines that are themselves blocked on a lock
		seen := map[int]bool{}
		var path []string
		var dfs func(g int) bool
		dfs = func(g int) bool {
			w := waits[g]
			if w == nil {
				return false // holder is not blocked on a lock: it can still release
			}
			if seen[g] {
				return g == start
			}
			seen[g] = true
			path = append(path, w.site)
			hs := holders(w)
			if len(hs) == 0 {
				path = path[:len(path)-1]
				return false
			}
			// every holder must be (transitively) stuck on this cycle for a definite deadlock;
			// be conservative: require all holders to lead back into blocked goroutines
			all := true
			for _, h := range hs {
				if h == start && len(path) >= 1 {
					continue
				}
				if !dfs(h) {
					all = false
					break
				}
			}
			if !all {
				path = path[:len(path)-1]
			}
			return all
		}
		if dfs(start) {
			return path
		}
	}
	return nil
}

// ReleaseAll wakes every parked goroutine (used after Deactivate for the free-running teardown).
func (s *Sim) ReleaseAll() {
	s.mu.Lock()
	ps := s.parked
	s.parked = nil
	s.mu.Unlock()
	for _, w := range ps {
		close(w.ch)
	}
}

// ParkedSites lists the sites of all currently parked goroutines (diagnostics).
func (s *Sim) ParkedSites() []string {
	s.mu.Lock()
	defer s.mu.Unlock()
	var out []string
	for _, w := range s.parked {
		out = append(out, w.site)
	}
	sort.Strings(out)
	return out
}

// Do runs f in a fresh goroutine and schedules until it returns.
func (s *Sim) Do(name string, f func(), maxSteps int, deadline time.Duration) error {
	t := s.Spawn(name, f)
	return s.Run(t.Done, maxSteps, deadline)
}
