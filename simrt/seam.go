package simrt

import _ "unsafe"

// Runtime seams provided by the -overlay build of runtime/select.go and runtime/rand.go
// (see /verif/tools/mkoverlay.py). Zero means "behave as shipped".

//go:linkname simSelectSeed runtime.simSelectSeed
var simSelectSeed uint64

//go:linkname simMapSeed runtime.simMapSeed
var simMapSeed uint64

//go:linkname simGoid runtime.simGoid
func simGoid() uint64

// SetRuntimeSeeds installs the values that decide select poll order and map hash seeds /
// iteration offsets until the next call.
func SetRuntimeSeeds(sel, mp uint64) { simSelectSeed = sel; simMapSeed = mp }

// Goid returns the runtime id of the calling goroutine (identity only; never logged).
func Goid() uint64 { return simGoid() }
