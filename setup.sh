#!/bin/bash
# MANIFEST.setup_cmd: build the framework from files on disk only (offline).
set -euo pipefail
cd "$(dirname "$0")"
. scripts/env.sh
mkdir -p "$VBUILD"
GOROOT_DIR=$($GO env GOROOT)
python3 tools/mkoverlay.py "$GOROOT_DIR" "$VBUILD/overlay"
(cd tools/instr && $GO build -o "$VBUILD/instr" .)
# warm the build cache: std with the overlay, plus the harness against the current tree
./scripts/build.sh "$VBUILD/warm" >/dev/null
rm -rf "$VBUILD/warm"
echo "setup ok"
