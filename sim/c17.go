package sim

import (
	"fmt"
	"math"
	"strings"
	"time"

	"verif.local/simrt"
)

// C17 — global window fires a group exactly when TRIGGER WHEN holds, then restarts it
// (DESIGN.md §3 C17). The predicate space is generator-bounded; what simulation adds is the
// hand-off of every row through two bounded channels and of every result through a third, under
// back-pressure and starvation, plus the per-row unlock around delivery.

type c17 struct{}

func init() { register(c17{}) }

func (c17) ID() string { return "C17" }

type trigTerm struct {
	Fn  string  `json:"fn"`  // count sum avg min max
	Col string  `json:"col"` // * or w
	Op  string  `json:"op"`
	Lit float64 `json:"lit"`
	Low bool    `json:"low,omitempty"` // function name spelled in lower case
}

func (t trigTerm) sql() string {
	arg := t.Col
	lit := fmt.Sprintf("%g", t.Lit)
	fn := strings.ToUpper(t.Fn)
	if t.Low {
		fn = t.Fn
	}
	return fmt.Sprintf("%s(%s) %s %s", fn, arg, t.Op, lit)
}

func (c17) Gen(rng *simrt.Rand, seed uint64, tier string) *Case {
	c := &Case{X: map[string]any{}}
	ncols := rng.Intn(3)
	adversarial := rng.Bool(0.5)
	tuples := genKeyTuples(rng, ncols, adversarial)
	keyCols := []string{"k1", "k2"}[:ncols]
	nterms := 1 + rng.Intn(3)
	var terms []any
	var parts []string
	conn := []string{"AND", "OR"}[rng.Intn(2)]
	for i := 0; i < nterms; i++ {
		var t trigTerm
		switch rng.Intn(7) {
		case 6: // COUNT(column) counts the rows whose column is not NULL
			t = trigTerm{Fn: "count", Col: "w", Op: []string{">=", ">", "="}[rng.Intn(3)], Lit: float64(1 + rng.Intn(4))}
		case 0, 1:
			t = trigTerm{Fn: "count", Col: "*", Op: []string{">=", ">", "="}[rng.Intn(3)], Lit: float64(1 + rng.Intn(5))}
		case 2:
			t = trigTerm{Fn: "sum", Col: "w", Op: []string{">=", ">"}[rng.Intn(2)], Lit: float64(3 + rng.Intn(20))}
		case 3:
			t = trigTerm{Fn: "avg", Col: "w", Op: []string{">=", ">", "<", "<="}[rng.Intn(4)], Lit: float64(1+rng.Intn(8)) + []float64{0, 0.5}[rng.Intn(2)]}
		case 4:
			t = trigTerm{Fn: "max", Col: "w", Op: []string{">=", ">"}[rng.Intn(2)], Lit: float64(4 + rng.Intn(6))}
		default:
			t = trigTerm{Fn: "min", Col: "w", Op: []string{"<=", "<"}[rng.Intn(2)], Lit: float64(1 + rng.Intn(4))}
		}
		t.Low = rng.Bool(0.4)
		terms = append(terms, map[string]any{"fn": t.Fn, "col": t.Col, "op": t.Op, "lit": t.Lit, "low": t.Low})
		parts = append(parts, t.sql())
	}
	pred := strings.Join(parts, " "+conn+" ")
	if nterms == 3 && rng.Bool(0.3) {
		// mixed connectives without parentheses: AND binds tighter than OR
		conn = []string{"OR_AND", "AND_OR"}[rng.Intn(2)]
		if conn == "OR_AND" {
			pred = parts[0] + " OR " + parts[1] + " AND " + parts[2]
		} else {
			pred = parts[0] + " AND " + parts[1] + " OR " + parts[2]
		}
	}
	c.X["terms"], c.X["conn"], c.X["ncols"] = terms, conn, ncols
	// SELECT: aggregates over v (NULLs allowed) and, sometimes, the aggregates over w that the
	// predicate uses (so that the predicate binds to a selected aggregate) — or not (trigger-only)
	sel, grp := sqlKeyList(keyCols)
	aggs := "count(*) AS cnt, sum(v) AS s, min(v) AS mn, max(v) AS mx, avg(v) AS av, collect(id) AS ids"
	if rng.Bool(0.5) {
		aggs += ", sum(w) AS sw, max(w) AS mxw"
		c.X["sel_w"] = true
	}
	// NULL inputs for the predicate's aggregates only where the predicate's value does not depend on
	// how a comparison with a NULL aggregate combines under OR (not-true vs evaluation failure:
	// the two readings differ there, and the statement does not pick one)
	nullW := (nterms == 1 || conn == "AND") && rng.Bool(0.5)
	c.X["null_w"] = nullW
	maxRows := 50
	if tier == "thorough" {
		maxRows = 110
	}
	n := 5 + rng.Intn(maxRows-4)
	var ops, ops2 []Op
	sleepP := []float64{0, 0.05, 0.3}[rng.Intn(3)]
	// two producers, each owning the groups of one parity (a group's arrival order is its owner's
	// emission order), with an input buffer that grows while they emit
	twoProd := len(tuples) >= 2 && rng.Bool(0.2)
	for i := 0; i < n; i++ {
		ti := rng.Intn(len(tuples))
		tup := tuples[ti]
		dst := &ops
		if twoProd && ti%2 == 1 {
			dst = &ops2
		}
		row := Row{"id": fmt.Sprintf("r%03d", i), "w": 1 + rng.Intn(9)}
		if nullW {
			switch rng.Intn(8) { // NULL / missing inputs of the predicate's own aggregates as well
			case 0:
				row["w"] = nil
			case 1:
				delete(row, "w")
			}
		}
		for k, col := range keyCols {
			if tup[k] == nil && rng.Bool(0.5) {
				continue
			}
			row[col] = tup[k]
		}
		switch rng.Intn(8) {
		case 0:
			row["v"] = nil
		case 1:
		default:
			row["v"] = rng.Intn(21) - 5
		}
		if rng.Bool(sleepP) {
			*dst = append(*dst, Op{K: "sleep", D: int64(time.Duration(1+rng.Intn(2000)) * time.Microsecond)})
		}
		*dst = append(*dst, Op{K: "emit", Row: row, Tag: row["id"].(string)})
	}
	c.Clients = [][]Op{ops}
	if twoProd {
		c.Clients = append(c.Clients, ops2)
	}
	perf := &PerfSpec{ResultChan: 1 + rng.Intn(4), Workers: 1 + rng.Intn(2), PoolSize: 1 + rng.Intn(3)}
	shortTO := rng.Bool(0.12)
	if shortTO {
		// block with a timeout shorter than the consumer's stalls: some results are refused
		perf.Strategy, perf.BlockTimeout = "block", int64([]time.Duration{30 * time.Millisecond, 100 * time.Millisecond}[rng.Intn(2)])
		perf.DataChan, perf.WindowOut = n+8, 1 // (the input buffer never fills: input rows are not to be dropped)
	} else if rng.Bool(0.6) {
		perf.Strategy, perf.BlockTimeout = "block", int64(time.Hour)
		perf.DataChan, perf.WindowOut = 1+rng.Intn(4), 1+rng.Intn(4)
	} else {
		perf.Strategy, perf.DataChan, perf.WindowOut = "drop", n+8, n+8
		if rng.Bool(0.4) {
			// tiny window buffers under the drop strategy (the size also bounds the window's intake
			// queue): whole results may be dropped at the output, but every row still has to get in
			perf.WindowOut = 1 + rng.Intn(3)
		}
	}
	if twoProd {
		perf.Strategy, perf.BlockTimeout, perf.DataChan, perf.WindowOut = "expand", 0, 1+rng.Intn(3), n+8
		perf.Growth, perf.MinInc, perf.Threshold, perf.MaxBuffer = []float64{1.5, 2}[rng.Intn(2)], 1+rng.Intn(2), []float64{0.8, 1.0}[rng.Intn(2)], 4*n+16
		shortTO = false
	}
	sink := SinkSpec{Mode: "sync"}
	if rng.Bool(0.4) {
		sink.Fault, sink.Every = "slow", 1+rng.Intn(3)
		sink.D = int64([]time.Duration{100 * time.Microsecond, 5 * time.Millisecond, 300 * time.Millisecond}[rng.Intn(3)])
	}
	if shortTO {
		sink.Fault, sink.Every, sink.D = "slow", 1+rng.Intn(2), int64(300*time.Millisecond)
	}
	c.Insts = []InstSpec{{SQL: fmt.Sprintf("SELECT %s%s FROM stream GROUP BY %sGLOBAL WINDOW TRIGGER WHEN %s", sel, aggs, grp, pred), Perf: perf, Sinks: []SinkSpec{sink}}}
	c.Policy = genPolicy(rng, []time.Duration{time.Microsecond, time.Millisecond, 100 * time.Millisecond, time.Second}, false)
	c.Settle = int64(2 * time.Second)
	c.MaxSteps = 300000
	c.FaultFree = sink.Fault == "" && !adversarial
	c.Variant = conn
	return c
}

func evalTerm(t trigTerm, rows []map[string]any) bool {
	var val float64
	switch t.Fn {
	case "count":
		val = float64(len(rows))
		if t.Col != "*" { // COUNT(w): rows whose w is not NULL / missing
			val = 0
			for _, r := range rows {
				if r["w"] != nil {
					val++
				}
			}
		}
	default:
		var ws []float64
		for _, r := range rows {
			if f, ok := toFloat(r["w"]); ok {
				ws = append(ws, f)
			}
		}
		if len(ws) == 0 {
			return false
		}
		s, mn, mx := 0.0, ws[0], ws[0]
		for _, w := range ws {
			s += w
			mn = math.Min(mn, w)
			mx = math.Max(mx, w)
		}
		switch t.Fn {
		case "sum":
			val = s
		case "avg":
			val = s / float64(len(ws))
		case "min":
			val = mn
		case "max":
			val = mx
		}
	}
	switch t.Op {
	case ">=":
		return val >= t.Lit
	case ">":
		return val > t.Lit
	case "<=":
		return val <= t.Lit
	case "<":
		return val < t.Lit
	case "=":
		return val == t.Lit
	}
	return false
}

func (c17) Run(e *Env) {
	if err := e.Setup(); err != nil {
		e.R.Infra = "setup: " + err.Error()
		return
	}
	in := e.Insts[0]
	keyCols := []string{"k1", "k2"}[:e.C.xInt("ncols", 0)]
	var terms []trigTerm
	for _, x := range e.C.X["terms"].([]any) {
		m := x.(map[string]any)
		lit, _ := toFloat(m["lit"])
		low, _ := m["low"].(bool)
		terms = append(terms, trigTerm{Fn: m["fn"].(string), Col: m["col"].(string), Op: m["op"].(string), Lit: lit, Low: low})
	}
	and := e.C.xStr("conn") == "AND"
	e.StartClients()
	if err := e.RunClients(); err != nil {
		if err == simrt.ErrMaxSteps {
			e.R.Discard = "step budget exhausted in client phase"
		} else {
			e.Violate("C17/producer-stuck", "", "client did not finish: %v; parked=%v", err, e.Sim.ParkedSites())
		}
		return
	}
	var st map[string]int64
	prev := -1
	for round := 0; round < 400; round++ { // until a whole settle period brings no progress
		if err := e.Settle(time.Duration(e.C.Settle)); err != nil {
			e.R.Discard = "settle: " + err.Error()
			return
		}
		if err := e.Do("stats", func() { st = in.S.GetStats() }); err != nil {
			e.R.Discard = "stats: " + err.Error()
			return
		}
		if len(in.Deliveries) == prev && st["data_chan_len"] == 0 && st["bufferUsed"] == 0 {
			break
		}
		prev = len(in.Deliveries)
	}
	if st["input_dropped_count"] > 0 {
		e.R.Discard = "overflow drop: not judged"
		return
	}
	// A result the window could not hand over (block timeout expired on a full output buffer, or
	// the drop strategy's eviction) is lost as a whole; the group has fired all the same. What is
	// delivered must then still be the group's fires, in order, with gaps.
	lossy := windowDropped(st) > 0 || (in.Spec.Perf.Strategy == "drop" && in.Spec.Perf.WindowOut < len(allOpsOf(e.C)))
	if lossy {
		e.Probe("lossy_window_output")
	}
	// reference: per group, running rows since the last fire
	byID := map[string]map[string]any{}
	running := map[string][]map[string]any{}
	expected := map[string][][]string{} // group -> list of id lists (one per fire)
	var order []string
	fires := 0
	var allOps []Op // producers own disjoint groups: per group, concatenation preserves arrival order
	for _, cl := range e.C.Clients {
		allOps = append(allOps, cl...)
	}
	for _, op := range allOps {
		if op.K != "emit" {
			continue
		}
		id := op.Row["id"].(string)
		byID[id] = op.Row
		g := keyString(rowKeys(op.Row, keyCols))
		if _, ok := expected[g]; !ok {
			expected[g] = nil
			order = append(order, g)
		}
		running[g] = append(running[g], op.Row)
		fire := and
		for _, t := range terms {
			v := evalTerm(t, running[g])
			if and {
				fire = fire && v
			} else {
				fire = fire || v
			}
		}
		switch e.C.xStr("conn") {
		case "OR_AND": // a OR b AND c
			fire = evalTerm(terms[0], running[g]) || (evalTerm(terms[1], running[g]) && evalTerm(terms[2], running[g]))
		case "AND_OR": // a AND b OR c
			fire = (evalTerm(terms[0], running[g]) && evalTerm(terms[1], running[g])) || evalTerm(terms[2], running[g])
		}
		if fire {
			var ids []string
			for _, r := range running[g] {
				ids = append(ids, r["id"].(string))
			}
			expected[g] = append(expected[g], ids)
			running[g] = nil
			fires++
		}
	}
	got := map[string]int{}
	for _, d := range in.Deliveries {
		for _, row := range d.Rows {
			r, err := parseWinResult(d, row, keyCols)
			if err != nil {
				e.Violate("C17/malformed-result", "", "%v", err)
				continue
			}
			e.Oblig(1)
			g := keyString(r.Keys)
			exp, ok := expected[g]
			if !ok {
				e.Violate("C17/unknown-group", "", "result for group %s which no emitted row has: %s", g, canon(row))
				continue
			}
			i := got[g]
			if lossy { // skip the fires whose results were lost
				for j := i; j < len(exp); j++ {
					if fmt.Sprint(r.IDs) == fmt.Sprint(exp[j]) {
						i = j
						break
					}
				}
			}
			got[g] = i + 1
			if i >= len(exp) {
				e.Violate("C17/fired-while-predicate-false", "", "group %s: result #%d delivered (rows %s) but the predicate holds only %d times for that group", g, i+1, idList(r.IDs), len(exp))
				continue
			}
			if fmt.Sprint(r.IDs) != fmt.Sprint(exp[i]) {
				e.Violate("C17/wrong-rows", "", "group %s: result #%d aggregates rows %s, expected the rows since the group last fired %s", g, i+1, idList(r.IDs), idList(exp[i]))
			}
			if msg := checkAggsPartial(r, byID); msg != "" {
				e.Violate("C17/aggregate-mismatch", "", "group %s result #%d: %s", g, i+1, msg)
			}
			if e.C.xBool("sel_w") {
				sw, mxw, nw := 0.0, math.Inf(-1), 0
				for _, id := range r.IDs {
					if w, ok := toFloat(byID[id]["w"]); ok {
						sw += w
						mxw = math.Max(mxw, w)
						nw++
					}
				}
				if nw == 0 {
					if row["mxw"] != nil || !(row["sw"] == nil || numEq(row["sw"], 0)) {
						e.Violate("C17/aggregate-mismatch", "", "group %s result #%d: sum(w)=%v max(w)=%v over no usable input", g, i+1, row["sw"], row["mxw"])
					}
				} else if !numEq(row["sw"], sw) || !numEq(row["mxw"], mxw) {
					e.Violate("C17/aggregate-mismatch", "", "group %s result #%d: sum(w)=%v max(w)=%v, rows give %v %v", g, i+1, row["sw"], row["mxw"], sw, mxw)
				}
			}
		}
	}
	for _, g := range order {
		e.Oblig(1)
		if got[g] < len(expected[g]) && !lossy {
			e.Violate("C17/missing-fire", "", "group %s: the predicate held %d times, only %d results were delivered at quiescence", g, len(expected[g]), got[g])
		}
		if len(running[g]) > 0 {
			e.Probe("group_left_unfired")
		}
	}
	if fires > 0 {
		e.Probe("fired")
	}
	if fires >= 3 {
		e.Probe("fired_3_or_more")
	}
	if len(order) > 1 {
		e.Probe("multi_group")
	}
	if e.C.xBool("null_w") {
		e.Probe("null_inputs_for_predicate_aggregates")
	}
	e.R.Summary = map[string]any{"groups": len(order), "fires": fires, "rows": len(byID), "strategy": in.Spec.Perf.Strategy}
}

// checkAggsPartial: like checkAggs but only for the aggregate columns the query selects.
func checkAggsPartial(r *WinResult, byID map[string]map[string]any) string {
	cp := *r
	row := map[string]any{}
	for k, v := range r.Row {
		row[k] = v
	}
	if len(r.IDs) > 0 {
		if _, ok := row["fid"]; !ok {
			row["fid"] = r.IDs[0]
		}
		if _, ok := row["lid"]; !ok {
			row["lid"] = r.IDs[len(r.IDs)-1]
		}
	}
	cp.Row = row
	return checkAggs(&cp, byID)
}

func allOpsOf(c *Case) []Op {
	var out []Op
	for _, cl := range c.Clients {
		out = append(out, cl...)
	}
	return out
}
