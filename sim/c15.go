package sim

import (
	"fmt"
	"regexp"
	"sort"
	"strings"
	"time"

	"verif.local/simrt"
)

// C15 — MATCH_RECOGNIZE reports exactly the valid leftmost-longest matches per partition
// (DESIGN.md §3 C15). What simulation decides here is the part that depends on time, lifecycle
// and interleaving: the WITHIN sweeper on the fake clock vs Process, flush at Stop, interleaved
// partitions. The pattern space is generator-bounded: DEFINE conditions classify rows into
// disjoint classes (so the labelling of a run is unique) and the patterns are chosen so that
// "greedy" and "longest" coincide; the reference is a brute-force matcher over the class string.

type c15 struct{}

func init() { register(c15{}) }

func (c15) ID() string { return "C15" }

var c15Patterns = []struct{ SQL, Re string }{
	{"A B", "AB"}, {"A B C", "ABC"}, {"A+ B", "A+B"}, {"A B+ C", "AB+C"}, {"A{2}", "A{2}"}, {"A{2,3} B", "A{2,3}B"},
	{"A B? C", "AB?C"}, {"A* B", "A*B"}, {"(A B)+", "(AB)+"}, {"(A | B) C", "(A|B)C"}, {"A (B | C)+ D", "A(B|C)+D"},
	{"PERMUTE(A, B) C", "(AB|BA)C"}, {"A+", "A+"}, {"A B*", "AB*"}, {"A{2,} B", "A{2,}B"}, {"A B C D", "ABCD"},
	{"A{1,3} B", "A{1,3}B"}, {"A{2,4}", "A{2,4}"}, {"A B{0,3} C", "AB{0,3}C"}, {"(A B){1,3} C", "(AB){1,3}C"},
	// alternatives one of which can start on a later row of a run the other is still extending
	// (c15AltLater): leftmost-first has to hold the later start back
	{"(A B+ | B)", "(AB+|B)"}, {"(A B+ C | B)", "(AB+C|B)"}, {"(A B | B) C", "(AB|B)C"},
}

const c15AltLater = 20 // index of the first of those

func (c15) Gen(rng *simrt.Rand, seed uint64, tier string) *Case {
	if rng.Bool(0.25) {
		return genC15Prev(rng, tier)
	}
	c := &Case{X: map[string]any{}}
	pi := rng.Intn(len(c15Patterns))
	pat := c15Patterns[pi]
	skipNext := rng.Bool(0.35)
	domain := []string{"seq", "now", "now", "past"}[rng.Intn(4)]
	if pi >= c15AltLater {
		c.X["alt_later"] = true
		if domain == "past" {
			domain = "now" // keep these clear of the known wall-clock sweeper finding
		}
	}
	within := ""
	var withinNS int64
	if domain != "seq" {
		switch rng.Intn(4) {
		case 1:
			within, withinNS = "1h", int64(time.Hour)
		case 2:
			within, withinNS = "345ms", int64(345*time.Millisecond) // never equal to a sum of the timestamp gaps: the boundary case races with the wall-clock sweeper
		case 3:
			within, withinNS = "1045ms", int64(1045*time.Millisecond)
		}
	} else if rng.Bool(0.3) {
		within, withinNS = "1h", 0 // sequence numbers: WITHIN never constrains
	}
	nparts := 1 + rng.Intn(3)
	partBy := ""
	if nparts > 1 || rng.Bool(0.5) {
		partBy = "PARTITION BY p "
	} else {
		nparts = 1
	}
	skip := ""
	if skipNext {
		skip = "AFTER MATCH SKIP TO NEXT ROW "
	} else if rng.Bool(0.3) {
		skip = "AFTER MATCH SKIP PAST LAST ROW "
	}
	w := ""
	if within != "" {
		w = fmt.Sprintf("WITHIN '%s' ", within)
	}
	sql := fmt.Sprintf("SELECT * FROM stream MATCH_RECOGNIZE ( %sORDER BY ts MEASURES MATCH_NUMBER() AS mn, COUNT(*) AS n, FIRST(id) AS fid, LAST(id) AS lid ONE ROW PER MATCH %sPATTERN (%s) %sDEFINE A AS k == 1, B AS k == 2, C AS k == 3, D AS k == 4 )", partBy, skip, pat.SQL, w)
	c.X["re"], c.X["skip_next"], c.X["within_ns"], c.X["domain"], c.X["partitioned"] = pat.Re, skipNext, withinNS, domain, partBy != ""
	n := 6 + rng.Intn(24)
	if tier == "thorough" {
		n = 8 + rng.Intn(50)
	}
	// class sequence biased towards the pattern's symbols
	syms := []int{}
	for _, ch := range pat.Re {
		if ch >= 'A' && ch <= 'D' {
			syms = append(syms, int(ch-'A')+1)
		}
	}
	var ops []Op
	base := fakeEpochMS + int64(c15ClockShift/time.Millisecond)
	if domain == "past" {
		base -= 86400000
	}
	ts := int64(1)
	if domain != "seq" {
		ts = base
	}
	tsGaps := []int64{10, 50, 100, 200, 500}
	mid := rng.Bool(0.25)
	for i := 0; i < n; i++ {
		k := 0
		switch r := rng.Float64(); {
		case r < 0.75:
			k = syms[rng.Intn(len(syms))]
		case r < 0.9:
			k = 1 + rng.Intn(4)
		}
		gap := int64(1)
		var sleep time.Duration
		if domain != "seq" {
			gap = tsGaps[rng.Intn(len(tsGaps))]
			if domain == "now" {
				sleep = time.Duration(gap) * time.Millisecond // event time tracks the fake clock
			} else if rng.Bool(0.5) {
				sleep = []time.Duration{20 * time.Millisecond, 200 * time.Millisecond, time.Second}[rng.Intn(3)]
			}
		} else if rng.Bool(0.2) {
			sleep = []time.Duration{time.Millisecond, 100 * time.Millisecond}[rng.Intn(2)]
		}
		ts += gap
		if sleep > 0 {
			ops = append(ops, Op{K: "sleep", D: int64(sleep)})
		}
		row := Row{"id": fmt.Sprintf("r%03d", i), "k": k, "ts": int(ts), "p": []any{"x", "y", "z"}[rng.Intn(nparts)]}
		ops = append(ops, Op{K: "emit", Row: row, Tag: row["id"].(string)})
	}
	twoProd := !mid && domain == "seq" && nparts >= 2 && rng.Bool(0.25)
	if twoProd {
		// two producers, each owning the partitions of one parity (a partition's arrival order is
		// its owner's emission order), with an input buffer that grows while they emit
		var a, b []Op
		for _, op := range ops {
			if op.K == "emit" && op.Row["p"] == "y" {
				b = append(b, op)
			} else {
				a = append(a, op)
			}
		}
		c.Clients = [][]Op{a, b}
		c.X["two_producers"] = true
	} else if !mid {
		c.Clients = [][]Op{ops} // Stop follows once the pipeline is quiescent (see Run)
	} else {
		c.Clients = [][]Op{ops, {{K: "sleep", D: int64(time.Duration(rng.Intn(1500)) * time.Millisecond)}, {K: "stop"}}}
	}
	c.X["mid_stop"] = mid
	perf := &PerfSpec{ResultChan: 64, Workers: 1 + rng.Intn(2), PoolSize: 2, Strategy: "block", BlockTimeout: int64(time.Hour), DataChan: 1 + rng.Intn(6)}
	if twoProd {
		perf = &PerfSpec{ResultChan: 64, Workers: 1 + rng.Intn(2), PoolSize: 2, Strategy: "expand", DataChan: 1 + rng.Intn(3), Growth: []float64{1.5, 2}[rng.Intn(2)], MinInc: 1 + rng.Intn(2), Threshold: []float64{0.8, 1.0}[rng.Intn(2)], MaxBuffer: 4*n + 16}
	}
	c.Insts = []InstSpec{{SQL: sql, Perf: perf, Sinks: []SinkSpec{{Mode: "sync"}}}}
	adv := []time.Duration{time.Microsecond, time.Millisecond, 100 * time.Millisecond, time.Second}
	if domain == "now" {
		adv = []time.Duration{time.Microsecond} // event time must keep tracking the clock
	}
	c.Policy = genPolicy(rng, adv, false)
	c.Settle = int64(time.Second)
	c.MaxSteps = 300000
	c.FaultFree = true
	c.Variant = domain
	return c
}

type c15Match struct{ First, Last string }

// c15ClockShift moves the fake clock from 2000-01-01 to late 2024 before the engine is created,
// so that epoch-millisecond timestamps "around now" are >= 1e12 and the engine's documented unit
// detection reads them as milliseconds.
const c15ClockShift = 25 * 365 * 24 * time.Hour

func (c15) Run(e *Env) {
	if e.C.Variant == "prev" {
		runC15Prev(e)
		return
	}
	if e.C.xStr("domain") != "seq" {
		time.Sleep(c15ClockShift)
		e.SimSkip = c15ClockShift
	}
	if err := e.Setup(); err != nil {
		e.R.Infra = "setup: " + err.Error()
		return
	}
	in := e.Insts[0]
	re := regexp.MustCompile("^(?:" + e.C.xStr("re") + ")$")
	skipNext := e.C.xBool("skip_next")
	withinNS, _ := toInt64(e.C.X["within_ns"])
	domain := e.C.xStr("domain")
	partitioned := e.C.xBool("partitioned")
	mid := e.C.xBool("mid_stop")
	e.StartClients()
	if err := e.RunClients(); err != nil {
		if err == simrt.ErrMaxSteps {
			e.R.Discard = "step budget exhausted in client phase"
		} else {
			e.Violate("C15/client-stuck", "", "clients did not finish: %v; parked=%v", err, e.Sim.ParkedSites())
		}
		return
	}
	if !mid {
		// wait for the pipeline to drain, then Stop (flushes unfinished accepting runs)
		prev := -1
		for round := 0; round < 400; round++ { // until a whole settle period brings no progress
			if err := e.Settle(time.Duration(e.C.Settle)); err != nil {
				e.R.Discard = "settle: " + err.Error()
				return
			}
			var st map[string]int64
			if err := e.Do("stats", func() { st = in.S.GetStats() }); err != nil {
				e.R.Discard = "stats: " + err.Error()
				return
			}
			if st["input_dropped_count"] > 0 {
				e.R.Discard = "input dropped"
				return
			}
			if st["data_chan_len"] == 0 && len(in.Deliveries) == prev {
				break
			}
			prev = len(in.Deliveries)
		}
		if err := e.Do("stop", func() { e.doStop(in, -1) }); err != nil {
			e.Violate("C15/stop-stuck", "", "Stop did not return: %v", err)
			return
		}
	}
	if err := e.Settle(time.Duration(e.C.Settle)); err != nil {
		e.R.Discard = "settle: " + err.Error()
		return
	}
	// events per partition in arrival order
	type ev struct {
		id  string
		sym byte
		ts  int64 // ns (normalised like the documented unit detection: epoch ms -> ns)
	}
	parts := map[string][]ev{}
	var partOrder []string
	partOfID := map[string]string{}
	emitOps := e.C.Clients[0]
	if e.C.xBool("two_producers") {
		emitOps = append(append([]Op{}, e.C.Clients[0]...), e.C.Clients[1]...) // disjoint partitions: per partition the order is its owner's
		e.Probe("two_producers_growing_input_buffer")
	}
	for _, op := range emitOps {
		if op.K != "emit" {
			continue
		}
		p := "*"
		if partitioned {
			p = canon(op.Row["p"])
		}
		if _, ok := parts[p]; !ok {
			partOrder = append(partOrder, p)
		}
		k, _ := toInt64(op.Row["k"])
		sym := byte('x')
		if k >= 1 && k <= 4 {
			sym = byte('A' + k - 1)
		}
		ts, _ := toInt64(op.Row["ts"])
		if domain != "seq" {
			ts *= int64(time.Millisecond)
		}
		id := op.Row["id"].(string)
		parts[p] = append(parts[p], ev{id, sym, ts})
		partOfID[id] = p
	}
	// reference: leftmost start, longest match that fits in WITHIN, then skip
	expected := map[string][]c15Match{}
	valid := func(evs []ev, i, j int) bool { // rows i..j-1
		var sb strings.Builder
		for _, x := range evs[i:j] {
			sb.WriteByte(x.sym)
		}
		if !re.MatchString(sb.String()) {
			return false
		}
		return withinNS <= 0 || evs[j-1].ts-evs[i].ts <= withinNS
	}
	nExpected := 0
	for _, p := range partOrder {
		evs := parts[p]
		for i := 0; i < len(evs); {
			best := -1
			for j := len(evs); j > i; j-- {
				if valid(evs, i, j) {
					best = j
					break
				}
			}
			if best < 0 {
				i++
				continue
			}
			expected[p] = append(expected[p], c15Match{evs[i].id, evs[best-1].id})
			nExpected++
			if skipNext {
				i++
			} else {
				i = best
			}
		}
	}
	// observed
	got := map[string][]c15Match{}
	mns := map[string][]int64{}
	idx := func(evs []ev, id string) int {
		for i, x := range evs {
			if x.id == id {
				return i
			}
		}
		return -1
	}
	// a Stop whose join ran into the grace abandons what it could not join (see C18)
	graceHit := false
	for _, rec := range e.Ops {
		if rec.Op.K == "stop" && rec.TRet-rec.TInv >= stopGrace {
			graceHit = true
		}
	}
	for _, d := range in.Deliveries {
		if in.StopRet > 0 && d.Start >= in.StopRet && !graceHit {
			e.Violate("C15/match-after-stop", "", "a match was delivered at step %d, after Stop had returned at step %d", d.Start, in.StopRet)
		}
		for _, r := range d.Rows {
			e.Oblig(1)
			fid, _ := r["fid"].(string)
			lid, _ := r["lid"].(string)
			p, ok := partOfID[fid]
			if !ok || partOfID[lid] != p {
				e.Violate("C15/match-spans-partitions", "", "match %s: FIRST(id)=%q and LAST(id)=%q are not rows of one partition", canon(r), fid, lid)
				continue
			}
			evs := parts[p]
			i, j := idx(evs, fid), idx(evs, lid)
			if i < 0 || j < i {
				e.Violate("C15/invalid-match", domain, "match %s: first row %s / last row %s are not an ordered run of partition %s", canon(r), fid, lid, p)
				continue
			}
			if n, _ := toInt64(r["n"]); int(n) != j-i+1 {
				e.Violate("C15/invalid-match", domain, "match %s..%s of partition %s: COUNT(*)=%v but the run of consecutive events has %d rows", fid, lid, p, r["n"], j-i+1)
			}
			if !valid(evs, i, j+1) {
				var sb strings.Builder
				for _, x := range evs[i : j+1] {
					sb.WriteByte(x.sym)
				}
				e.Violate("C15/invalid-match", domain, "match %s..%s of partition %s classifies as %q which is not a word of the pattern (or exceeds WITHIN: spans %v)", fid, lid, p, sb.String(), time.Duration(evs[j].ts-evs[i].ts))
			}
			got[p] = append(got[p], c15Match{fid, lid})
			mn, _ := toInt64(r["mn"])
			mns[p] = append(mns[p], mn)
		}
	}
	for _, p := range partOrder {
		if graceHit {
			// Stop gave up joining after its grace (abandon by design): the flush then runs next
			// to goroutines that are still delivering, and the order of deliveries is nobody's
			break
		}
		for k, mn := range mns[p] {
			if mn != int64(k+1) {
				e.Violate("C15/match-number", "", "partition %s: MATCH_NUMBER sequence %v is not 1,2,3,..", p, mns[p])
				break
			}
		}
	}
	if !mid {
		// all events were processed before Stop (2 s of idle fake time): exact equality
		for _, p := range partOrder {
			e.Oblig(1)
			g, x := got[p], expected[p]
			if fmt.Sprint(g) != fmt.Sprint(x) {
				site := domain
				if domain == "past" && withinNS > 0 {
					site = "past/within-sweeper" // historic timestamps with the wall-clock WITHIN sweeper active
				}
				if e.C.xBool("alt_later") {
					site = "alternative-starting-inside-a-longer-run"
				}
				missing := 0
				for _, m := range x {
					found := false
					for _, y := range g {
						if y == m {
							found = true
						}
					}
					if !found {
						missing++
					}
				}
				cls := "C15/wrong-matches"
				if missing > 0 && len(g) < len(x) {
					cls = "C15/missing-match"
				}
				var sb strings.Builder
				for _, xx := range parts[p] {
					sb.WriteByte(xx.sym)
				}
				e.Violate(cls, site, "partition %s (classes %q, pattern %s, skip_next=%v, within=%v): reported matches %v, the leftmost-longest matches are %v", p, sb.String(), e.C.xStr("re"), skipNext, time.Duration(withinNS), g, x)
			}
		}
	} else {
		e.Probe("stop_mid_stream")
	}
	if nExpected > 0 {
		e.Probe("matches_expected")
	}
	if len(partOrder) > 1 {
		e.Probe("interleaved_partitions")
	}
	if withinNS > 0 && domain != "seq" {
		e.Probe("within_active")
	}
	for _, l := range e.LogErr {
		if strings.Contains(l, "panic") {
			e.Probe("panic_recovered_by_engine")
		}
	}
	keys := make([]string, 0, len(got))
	for k := range got {
		keys = append(keys, k)
	}
	sort.Strings(keys)
	e.R.Summary = map[string]any{"pattern": e.C.xStr("re"), "domain": domain, "within": time.Duration(withinNS).String(), "expected": nExpected, "partitions": len(partOrder)}
}
