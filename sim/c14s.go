package sim

import (
	"fmt"
	"reflect"
	"strings"
	"time"

	"github.com/anishathalye/porcupine"
	"verif.local/simrt"
)

// C14, variant "shared": 2-3 clients call EmitSync with rows of the SAME partitions at the same
// time. Overlapping calls have no arrival order of their own, so the oracle is linearizability:
// per (partition, field) — the engine serialises each field separately — the recorded history
// (invoke/return stamped with scheduler sequence numbers) must be explainable by SOME order of
// the calls that respects real time, under the sequential reference state machine including the
// WHEN gate (a WHEN-false row repeats the latest WHEN-true result of its partition).

func genC14Shared(rng *simrt.Rand, tier string) *Case {
	c := &Case{X: map[string]any{}}
	part := rng.Bool(0.7)
	fns := []string{"lag", "latest", "had_changed", "changed_col", "acc_sum", "acc_count", "acc_avg", "acc_min", "acc_max", "diff", "range", "cnt0", "cnt0", "coal"}
	nf := 1 + rng.Intn(3)
	var specs []afSpec
	var sel []string
	var specsAny []any
	for i := 0; i < nf; i++ {
		a := afSpec{Alias: fmt.Sprintf("f%d", i), Fn: fns[rng.Intn(len(fns))], Part: part}
		switch a.Fn {
		case "lag":
			if rng.Bool(0.5) {
				a.Off = 1 + rng.Intn(2)
				d := -1
				a.Def = &d
			}
		case "had_changed", "changed_col":
			ig := rng.Bool(0.5)
			a.Ign = &ig
		case "acc_sum", "acc_count", "acc_avg", "acc_min", "acc_max":
			a.Cond = []string{"", "", "start", "startreset"}[rng.Intn(4)]
		}
		if rng.Bool(0.6) {
			a.When = []string{"gt2", "ge0"}[rng.Intn(2)]
		}
		specs = append(specs, a)
		sel = append(sel, a.sql())
		m := map[string]any{"alias": a.Alias, "fn": a.Fn, "off": a.Off, "part": a.Part, "when": a.When, "cond": a.Cond}
		if a.Def != nil {
			m["def"] = *a.Def
		}
		if a.Ign != nil {
			m["ign"] = *a.Ign
		}
		specsAny = append(specsAny, m)
	}
	where, whereKind := "", ""
	if rng.Bool(0.25) {
		where, whereKind = " WHERE w >= 1", "plain_w1"
	}
	sql := "SELECT id, p, v, " + strings.Join(sel, ", ") + " FROM stream" + where
	c.X["specs"], c.X["where"], c.X["part"] = specsAny, whereKind, part
	nparts := 1 + rng.Intn(2)
	nclients := 2 + rng.Intn(2)
	per := 2 + rng.Intn(5)
	if tier == "thorough" {
		per = 2 + rng.Intn(8)
	}
	parts := []any{"a", "b"}[:nparts]
	clients := make([][]Op, nclients)
	i := 0
	for ci := 0; ci < nclients; ci++ {
		for j := 0; j < per; j++ {
			row := Row{"id": fmt.Sprintf("r%03d", i), "w": rng.Intn(4), "p": parts[rng.Intn(nparts)]}
			switch rng.Intn(10) {
			case 0:
				row["v"] = nil
			case 1: // missing
			default:
				row["v"] = rng.Intn(6)
			}
			if rng.Bool(0.15) {
				clients[ci] = append(clients[ci], Op{K: "sleep", D: int64(time.Duration(1+rng.Intn(300)) * time.Microsecond)})
			}
			clients[ci] = append(clients[ci], Op{K: "emitsync", I: 0, Row: row, Tag: row["id"].(string)})
			i++
		}
	}
	c.Insts = []InstSpec{{SQL: sql, Perf: &PerfSpec{ResultChan: 64, Workers: 1, PoolSize: 2}, Sinks: []SinkSpec{{Mode: "sync"}}}}
	c.Clients = clients
	c.Policy = genPolicy(rng, []time.Duration{time.Microsecond}, false)
	c.Settle = int64(time.Second)
	c.MaxSteps = 300000
	c.FaultFree = true
	c.Variant = "shared"
	return c
}

type c14In struct {
	Field int
	Part  string
	ID    string
	V     any
	W     any
	When  bool
}

func (st refState) clone() refState {
	st.hist = append([]any(nil), st.hist...)
	return st
}

func runC14Shared(e *Env) {
	if err := e.Setup(); err != nil {
		e.R.Infra = "setup: " + err.Error()
		return
	}
	specs := loadAfSpecs(e.C)
	part := e.C.xBool("part")
	whereKind := e.C.xStr("where")
	e.StartClients()
	if err := e.RunClients(); err != nil {
		if err == simrt.ErrMaxSteps {
			e.R.Discard = "step budget exhausted in client phase"
		} else {
			e.Violate("C14/producer-stuck", "shared", "clients did not finish: %v; parked=%v", err, e.Sim.ParkedSites())
		}
		return
	}
	var ops []porcupine.Operation
	overlap := false
	type span struct{ inv, ret int }
	spans := map[string][]span{}
	for _, rec := range e.Ops {
		if rec.Op.K != "emitsync" {
			continue
		}
		row := rec.Op.Row
		id := rec.Op.Tag
		if rec.Err != "" {
			e.Violate("C14/emitsync-error", "shared", "EmitSync(%s): %s", id, rec.Err)
			continue
		}
		pass := true
		if whereKind == "plain_w1" {
			f, ok := toFloat(row["w"])
			pass = ok && f >= 1
		}
		e.Oblig(1)
		if (rec.Out != nil) != pass {
			e.Violate("C14/row-presence", "shared", "row %s (w=%s): result produced=%v, expected=%v", id, canon(row["w"]), rec.Out != nil, pass)
			continue
		}
		if !pass {
			continue // a row failing an analytic-free WHERE does not count
		}
		pk := "*"
		if part {
			pk = canon(row["p"])
		}
		for _, s := range spans[pk] {
			if rec.Inv < s.ret && s.inv < rec.Ret {
				overlap = true
			}
		}
		spans[pk] = append(spans[pk], span{rec.Inv, rec.Ret})
		v := row["v"]
		for fi, a := range specs {
			ops = append(ops, porcupine.Operation{ClientId: rec.Client, Call: int64(2 * rec.Inv), Return: int64(2*rec.Ret + 1),
				Input:  c14In{Field: fi, Part: pk, ID: id, V: v, W: row["w"], When: a.When == "" || whenHolds(a.When, v)},
				Output: rec.Out[a.Alias]})
		}
	}
	if overlap {
		e.Probe("overlapping_emitsync_in_one_partition")
	}
	describe := func(input, output interface{}) string {
		i := input.(c14In)
		return fmt.Sprintf("%s v=%s when=%v -> %s", i.ID, canon(i.V), i.When, canon(output))
	}
	model := porcupine.Model{
		Partition: func(history []porcupine.Operation) [][]porcupine.Operation {
			m := map[string][]porcupine.Operation{}
			var order []string
			for _, o := range history {
				i := o.Input.(c14In)
				k := fmt.Sprintf("%d/%s", i.Field, i.Part)
				if _, ok := m[k]; !ok {
					order = append(order, k)
				}
				m[k] = append(m[k], o)
			}
			var out [][]porcupine.Operation
			for _, k := range order {
				out = append(out, m[k])
			}
			return out
		},
		Init: func() interface{} { return refState{} },
		Step: func(state, input, output interface{}) (bool, interface{}) {
			st := state.(refState).clone()
			i := input.(c14In)
			var want any
			if !i.When {
				if st.hasLast {
					want = st.last
				}
			} else {
				st.w = i.W
				want = specs[i.Field].apply(&st, i.V)
				st.last, st.hasLast = want, true
			}
			return refEqual(output, want), st
		},
		Equal:             func(a, b interface{}) bool { return reflect.DeepEqual(a, b) },
		DescribeOperation: describe,
	}
	switch res, _ := porcupine.CheckOperationsVerbose(model, ops, 20*time.Second); res {
	case porcupine.Illegal:
		msg := "history is not linearizable against the sequential definition"
		site := "shared"
		for _, p := range model.Partition(ops) {
			if !porcupine.CheckOperations(porcupine.Model{Init: model.Init, Step: model.Step, Equal: model.Equal}, p) {
				var desc []string
				for _, o := range p {
					desc = append(desc, fmt.Sprintf("[%d,%d] c%d %s", o.Call, o.Return, o.ClientId, describe(o.Input, o.Output)))
				}
				a := specs[p[0].Input.(c14In).Field]
				site = "shared/" + a.Fn
				msg = fmt.Sprintf("%s, partition %s: no order of these calls that respects real time reproduces the returned values: %v", a.sql(), p[0].Input.(c14In).Part, desc)
				break
			}
		}
		e.Violate("C14/not-linearizable", site, "%s", msg)
	case porcupine.Unknown:
		e.Probe("linearizability_check_timed_out")
		e.R.Discard = "linearizability check timed out (inconclusive)"
	}
	e.R.Summary = map[string]any{"sql": e.C.Insts[0].SQL, "clients": len(e.C.Clients), "ops": len(ops)}
}
