package sim

import (
	"fmt"
	"math"
	"sort"
	"strings"
)

// Shared pieces of the window properties (C01 C02 C08 C09 C10 C17): the witness SELECT list,
// parsing of delivered result rows and the by-product aggregate consistency check.

const aggSelect = "count(*) AS cnt, sum(v) AS s, min(v) AS mn, max(v) AS mx, avg(v) AS av, collect(id) AS ids, first_value(id) AS fid, last_value(id) AS lid, window_start() AS ws, window_end() AS we"

// adversarial key values: separators used by the engine's internal key encodings, empty, NULL
var keyPool = []any{"a", "b", "a|b", "|", "", "c,d", "x\x1fy", nil, "b|c", "a|", "A"}

type WinResult struct {
	D        *Delivery
	Row      map[string]any
	Keys     []any
	IDs      []string
	WS, WE   int64
	WindowID string
}

func parseWinResult(d *Delivery, row map[string]any, keyCols []string) (*WinResult, error) {
	r := &WinResult{D: d, Row: row}
	for _, k := range keyCols {
		v, ok := row[k]
		if !ok {
			return nil, fmt.Errorf("group column %q missing from result %s", k, canon(row))
		}
		r.Keys = append(r.Keys, v)
	}
	switch ids := row["ids"].(type) {
	case []any:
		for _, x := range ids {
			s, ok := x.(string)
			if !ok {
				return nil, fmt.Errorf("collect(id) element %v is not a string", x)
			}
			r.IDs = append(r.IDs, s)
		}
	case nil:
	default:
		return nil, fmt.Errorf("collect(id) has type %T", row["ids"])
	}
	if v, ok := toInt64(row["ws"]); ok {
		r.WS = v
	}
	if v, ok := toInt64(row["we"]); ok {
		r.WE = v
	}
	r.WindowID, _ = row["window_id"].(string)
	return r, nil
}

func keyString(keys []any) string { return canon(keys) }

func rowKeys(row map[string]any, keyCols []string) []any {
	out := make([]any, len(keyCols))
	for i, k := range keyCols {
		out[i] = row[k]
	}
	return out
}

func numEq(a any, b float64) bool {
	f, ok := toFloat(a)
	if !ok {
		return false
	}
	return f == b || math.Abs(f-b) <= 1e-9*math.Max(1, math.Abs(b))
}

// checkAggs verifies count/sum/min/max/avg/first/last of a delivered result against the rows
// named by its collect(id) witness (definitions as in the C03 statement: NULL/missing skipped,
// count(*) counts rows, empty input gives NULL). Returns "" or a description of the mismatch.
func checkAggs(r *WinResult, byID map[string]map[string]any) string {
	var vals []float64
	for _, id := range r.IDs {
		row := byID[id]
		if row == nil {
			return fmt.Sprintf("result contains id %q that was never emitted", id)
		}
		if v, ok := toFloat(row["v"]); ok {
			vals = append(vals, v)
		}
	}
	if !numEq(r.Row["cnt"], float64(len(r.IDs))) {
		return fmt.Sprintf("count(*)=%v but collect(id) has %d ids", r.Row["cnt"], len(r.IDs))
	}
	if len(vals) == 0 {
		for _, k := range []string{"s", "mn", "mx", "av"} {
			if r.Row[k] != nil {
				if f, ok := toFloat(r.Row[k]); !(k == "s" && ok && f == 0) { // sum over nothing: NULL (0 tolerated)
					return fmt.Sprintf("%s=%v over no usable input", k, r.Row[k])
				}
			}
		}
	} else {
		s, mn, mx := 0.0, vals[0], vals[0]
		for _, v := range vals {
			s += v
			mn = math.Min(mn, v)
			mx = math.Max(mx, v)
		}
		if !numEq(r.Row["s"], s) {
			return fmt.Sprintf("sum(v)=%v, rows %v give %v", r.Row["s"], r.IDs, s)
		}
		if !numEq(r.Row["mn"], mn) {
			return fmt.Sprintf("min(v)=%v, rows give %v", r.Row["mn"], mn)
		}
		if !numEq(r.Row["mx"], mx) {
			return fmt.Sprintf("max(v)=%v, rows give %v", r.Row["mx"], mx)
		}
		if !numEq(r.Row["av"], s/float64(len(vals))) {
			return fmt.Sprintf("avg(v)=%v, rows give %v", r.Row["av"], s/float64(len(vals)))
		}
	}
	if len(r.IDs) > 0 {
		if r.Row["fid"] != r.IDs[0] {
			return fmt.Sprintf("first_value(id)=%v but collect(id)[0]=%v", r.Row["fid"], r.IDs[0])
		}
		if r.Row["lid"] != r.IDs[len(r.IDs)-1] {
			return fmt.Sprintf("last_value(id)=%v but collect(id)[last]=%v", r.Row["lid"], r.IDs[len(r.IDs)-1])
		}
	}
	return ""
}

func sqlKeyList(keyCols []string) (sel, grp string) {
	if len(keyCols) == 0 {
		return "", ""
	}
	return strings.Join(keyCols, ", ") + ", ", strings.Join(keyCols, ", ") + ", "
}

func sortedCopy(a []string) []string {
	b := append([]string(nil), a...)
	sort.Strings(b)
	return b
}

func sameSet(a, b []string) bool {
	if len(a) != len(b) {
		return false
	}
	x, y := sortedCopy(a), sortedCopy(b)
	for i := range x {
		if x[i] != y[i] {
			return false
		}
	}
	return true
}

// windowDropped reads the window's own drop counter from the stats map.
func windowDropped(st map[string]int64) int64 { return st["droppedCount"] }
