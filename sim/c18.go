package sim

import (
	"fmt"
	"strings"
	"time"

	"github.com/rulego/streamsql/functions"
	"verif.local/simrt"
)

// C18 — lifecycle operations are safe under any interleaving and Stop is a barrier
// (DESIGN.md §3 C18). All eight query kinds x overflow strategies x small buffers; producers,
// AddSink / GetStats / TriggerWindow callers and 1-2 Stop callers at PRNG-chosen points; sinks
// that panic, are slow, call back into the instance, or block past the grace; poison rows.

type c18 struct{}

func init() { register(c18{}); registerBoom() }

func (c18) ID() string { return "C18" }

const stopGrace = 5 * time.Second // the documented bound of Stop's join

var c18Queries = []struct{ Kind, SQL string }{
	{"direct", "SELECT id, a, verif_boom(a) AS b FROM stream WHERE a >= 0"},
	{"analytic", "SELECT id, lag(a) AS la, verif_boom(a) AS b FROM stream"},
	{"analytic", "SELECT id, lag(a) AS la, acc_count(a) OVER (PARTITION BY p WHEN a > 2) AS c, verif_boom(a) AS b FROM stream"},
	{"cep", "SELECT * FROM stream MATCH_RECOGNIZE ( ORDER BY ts MEASURES MATCH_NUMBER() AS mn, COUNT(A.a) AS n ONE ROW PER MATCH PATTERN (A+ B) DEFINE A AS a > 2, B AS a <= 2 )"},
	{"cep_open", "SELECT * FROM stream MATCH_RECOGNIZE ( ORDER BY ts MEASURES MATCH_NUMBER() AS mn, COUNT(A.a) AS n ONE ROW PER MATCH PATTERN (A+) WITHIN '300ms' DEFINE A AS a > 1 )"},
	{"cep_boom", "SELECT * FROM stream MATCH_RECOGNIZE ( ORDER BY ts MEASURES MATCH_NUMBER() AS mn, COUNT(A.a) AS n ONE ROW PER MATCH PATTERN (A+ B) DEFINE A AS verif_boom(a) > 2, B AS a <= 2 )"},
	{"tumbling_pt", "SELECT count(*) AS c, collect(id) AS ids FROM stream GROUP BY TumblingWindow('200ms')"},
	{"tumbling_et", "SELECT count(*) AS c, collect(id) AS ids FROM stream GROUP BY TumblingWindow('200ms') WITH (TIMESTAMP='ts', TIMEUNIT='ms', MAXOUTOFORDERNESS='50ms', ALLOWEDLATENESS='100ms')"},
	{"sliding_pt", "SELECT count(*) AS c, collect(id) AS ids FROM stream GROUP BY SlidingWindow('300ms', '100ms')"},
	{"sliding_et", "SELECT count(*) AS c, collect(id) AS ids FROM stream GROUP BY SlidingWindow('300ms', '100ms') WITH (TIMESTAMP='ts', TIMEUNIT='ms', MAXOUTOFORDERNESS='50ms')"},
	{"session_pt", "SELECT p, count(*) AS c, collect(id) AS ids FROM stream GROUP BY p, SessionWindow('150ms')"},
	{"session_et", "SELECT p, count(*) AS c, collect(id) AS ids FROM stream GROUP BY p, SessionWindow('150ms') WITH (TIMESTAMP='ts', TIMEUNIT='ms', MAXOUTOFORDERNESS='50ms', ALLOWEDLATENESS='100ms')"},
	{"counting", "SELECT p, count(*) AS c, collect(id) AS ids FROM stream GROUP BY p, CountingWindow(3)"},
	{"global", "SELECT p, count(*) AS c, collect(id) AS ids FROM stream GROUP BY p, GLOBAL WINDOW TRIGGER WHEN COUNT(*) >= 2"},
}

func registerBoom() {
	// F4: a row whose evaluation panics (a == 13)
	functions.RegisterCustomFunction("verif_boom", functions.TypeMath, "verif", "panics on 13", 1, 1,
		func(ctx *functions.FunctionContext, args []any) (any, error) {
			if f, ok := toFloat(args[0]); ok && f == 13 {
				panic("injected poison row")
			}
			return args[0], nil
		})
}

func (c18) Gen(rng *simrt.Rand, seed uint64, tier string) *Case {
	c := &Case{X: map[string]any{}}
	q := c18Queries[rng.Intn(len(c18Queries))]
	strat := []string{"drop", "block", "blockto", "expand"}[rng.Intn(4)]
	perf := &PerfSpec{DataChan: 1 + rng.Intn(4), ResultChan: 1 + rng.Intn(3), WindowOut: 1 + rng.Intn(3), Workers: 1 + rng.Intn(3), PoolSize: 1 + rng.Intn(2)}
	switch strat {
	case "drop":
		perf.Strategy = "drop"
	case "block":
		perf.Strategy = "block"
	case "blockto":
		perf.Strategy, perf.BlockTimeout = "block", int64([]time.Duration{time.Millisecond, 50 * time.Millisecond}[rng.Intn(2)])
	case "expand":
		perf.Strategy, perf.MaxBuffer, perf.Growth, perf.MinInc, perf.Threshold = "expand", perf.DataChan+rng.Intn(6), 1.5, 1, 0.5
	}
	// sinks
	sinks := []SinkSpec{{Mode: "sync"}, {Mode: "async"}}
	longBlock := false
	for i := 0; i < rng.Intn(3); i++ {
		mode := []string{"sync", "async"}[rng.Intn(2)]
		switch rng.Intn(5) {
		case 0:
			sinks = append(sinks, SinkSpec{Mode: mode, Fault: "panic", Every: 1 + rng.Intn(3)})
		case 1:
			sinks = append(sinks, SinkSpec{Mode: mode, Fault: "slow", Every: 1 + rng.Intn(2), D: int64([]time.Duration{time.Millisecond, 30 * time.Millisecond, 400 * time.Millisecond}[rng.Intn(3)])})
		case 2:
			sinks = append(sinks, SinkSpec{Mode: mode, Fault: "reenter", Every: 1 + rng.Intn(2), Reent: []string{"stats", "emit", "addsink", "stop"}[rng.Intn(4)]})
		case 3:
			if rng.Bool(0.3) {
				sinks = append(sinks, SinkSpec{Mode: mode, Fault: "slow", Every: 2, D: int64(8 * time.Second)}) // outlives the grace
				longBlock = true
			}
		}
	}
	c.X["long_block"] = longBlock
	c.X["kind"], c.X["strategy"] = q.Kind, strat
	c.Insts = []InstSpec{{SQL: q.SQL, Perf: perf, Sinks: sinks, ReadChan: rng.Bool(0.3)}}
	// clients
	nprod := 1 + rng.Intn(3)
	nrows := 4 + rng.Intn(14)
	if tier == "thorough" {
		nrows = 6 + rng.Intn(30)
	}
	id := 0
	direct := q.Kind == "direct" || q.Kind == "analytic"
	for p := 0; p < nprod; p++ {
		var ops []Op
		for i := 0; i < nrows; i++ {
			a := rng.Intn(6)
			if rng.Bool(0.06) {
				a = 13 // poison
			}
			row := Row{"id": fmt.Sprintf("r%03d", id), "a": a, "p": []any{"x", "y"}[rng.Intn(2)], "ts": int(fakeEpochMS) + id*40}
			id++
			k := "emit"
			if direct && rng.Bool(0.3) {
				k = "emitsync"
			}
			ops = append(ops, Op{K: k, Row: row, Tag: row["id"].(string)})
			if rng.Bool(0.3) {
				ops = append(ops, Op{K: "sleep", D: int64([]time.Duration{50 * time.Microsecond, 5 * time.Millisecond, 120 * time.Millisecond}[rng.Intn(3)])})
			}
		}
		c.Clients = append(c.Clients, ops)
	}
	misc := []string{"stats", "dstats", "trigger", "addsink", "stats"}
	if rng.Bool(0.7) {
		var ops []Op
		for i := 0; i < 2+rng.Intn(8); i++ {
			op := Op{K: misc[rng.Intn(len(misc))]}
			if op.K == "addsink" {
				op.T = []string{"sync", "async"}[rng.Intn(2)]
			}
			ops = append(ops, op)
			if rng.Bool(0.5) {
				ops = append(ops, Op{K: "sleep", D: int64(time.Duration(1+rng.Intn(3000)) * time.Microsecond)})
			}
		}
		c.Clients = append(c.Clients, ops)
	}
	// Stop callers
	nstop := 1 + rng.Intn(2)
	for s := 0; s < nstop; s++ {
		var ops []Op
		switch rng.Intn(4) {
		case 0: // early
			ops = append(ops, Op{K: "sleep", D: int64(time.Duration(rng.Intn(300)) * time.Microsecond)})
		case 1, 2: // mid-burst
			ops = append(ops, Op{K: "sleep", D: int64(time.Duration(1+rng.Intn(400)) * time.Millisecond)})
		default: // after everything
			ops = append(ops, Op{K: "sleep", D: int64(3 * time.Second)})
		}
		ops = append(ops, Op{K: "stop"})
		// Emit after Stop, then Stop again (idempotent)
		ops = append(ops, Op{K: "emit", Row: Row{"id": fmt.Sprintf("after-stop-%d", s), "a": 1, "p": "x", "ts": int(fakeEpochMS) + 99999}, Tag: fmt.Sprintf("after-stop-%d", s)})
		ops = append(ops, Op{K: "stats"}, Op{K: "trigger"}, Op{K: "stop"})
		c.Clients = append(c.Clients, ops)
	}
	c.Policy = genPolicy(rng, []time.Duration{time.Microsecond, time.Millisecond, 100 * time.Millisecond, 200 * time.Millisecond, time.Second}, false)
	c.Settle = int64(stopGrace + 10*time.Second)
	c.MaxSteps = 400000
	c.Variant = q.Kind + "/" + strat
	c.FaultFree = len(sinks) == 2
	return c
}

func (c18) Run(e *Env) {
	kind, strat := e.C.xStr("kind"), e.C.xStr("strategy")
	longBlock := e.C.xBool("long_block")
	site := kind
	if err := e.Setup(); err != nil {
		e.R.Infra = "setup: " + err.Error()
		return
	}
	in := e.Insts[0]
	e.StartClients()
	err := e.RunClients()
	if err != nil {
		switch err.(type) {
		case *simrt.StuckError:
			se := err.(*simrt.StuckError)
			cls := "C18/blocked-forever"
			if se.LockCycle {
				cls = "C18/lock-cycle-or-lost-wakeup"
			}
			e.Violate(cls, site+"/"+strat, "clients never finished: nothing runnable for the idle budget; goroutines parked at %v; unfinished clients %v", se.Parked, e.unfinishedClients())
			return
		default:
			if err == simrt.ErrMaxSteps {
				e.R.Discard = "step budget exhausted in client phase"
				return
			}
			e.Violate("C18/blocked-forever", site+"/"+strat, "clients never finished: %v; parked=%v", err, e.Sim.ParkedSites())
			return
		}
	}
	// Stop returned (all stop clients finished). Let injected sinks finish, then take the census.
	if err := e.Settle(time.Duration(e.C.Settle)); err != nil {
		if se, ok := err.(*simrt.StuckError); ok {
			e.Violate("C18/lock-cycle-or-lost-wakeup", site+"/"+strat, "after Stop: goroutines parked forever at %v", se.Parked)
		} else {
			e.R.Discard = "settle: " + err.Error()
		}
		return
	}
	e.Oblig(1)
	stopRet := in.StopRet
	if stopRet == 0 {
		e.R.Infra = "no Stop returned although all clients finished"
		return
	}
	// Stop duration: fake time between invocation and return of every Stop call, minus the clock
	// advances the scheduler forced meanwhile
	for _, rec := range e.Ops {
		if rec.Op.K != "stop" {
			continue
		}
		e.Oblig(1)
		dur := rec.TRet - rec.TInv
		forced := e.advBetween(rec.Inv, rec.Ret)
		if dur-forced > stopGrace+2*time.Second {
			e.Violate("C18/stop-exceeds-grace", site, "Stop took %v of simulated time (%v of it forced clock advances): more than the %v grace + 2s", dur, forced, stopGrace)
		}
	}
	// Stop called from inside a sink waits for the very goroutine it runs on: the barrier clauses
	// are unsatisfiable by construction there (only "returns within the grace" applies)
	reentStop := e.R.Faults["sink_reenter_stop"] > 0
	if reentStop {
		e.Probe("stop_called_from_a_sink")
	}
	// deliveries made inline by an EmitSync call that was already in flight when Stop returned
	// belong to the caller's goroutine, which Stop cannot join
	inflight := map[string]bool{}
	for _, rec := range e.Ops {
		if rec.Op.K == "emitsync" && rec.Inv < stopRet {
			inflight[rec.Op.Tag] = true
		}
	}
	// a Stop whose join ran into the grace (a stalled or starved goroutine, a forced clock jump)
	// abandons what it could not join, by design: the barrier clauses are then not promised
	graceHit := false
	for _, rec := range e.Ops {
		if rec.Op.K == "stop" && rec.TRet-rec.TInv >= stopGrace {
			graceHit = true
		}
	}
	if graceHit {
		e.Probe("stop_join_hit_the_grace")
	}
	if !longBlock && !reentStop && !graceHit {
		// barrier: no sink invocation starts after the first Stop returned
		for _, d := range in.Deliveries {
			if len(d.Rows) == 1 && inflight[rowID(d.Rows[0])] {
				continue
			}
			if d.Start >= stopRet {
				e.Violate("C18/sink-after-stop", site, "sink %d invoked at step %d, after Stop had returned at step %d (rows %s)", d.Sink, d.Start, stopRet, canon(d.Rows))
				break
			}
		}
		// census: no engine goroutine keeps running
		if left := Census(); len(left) > 0 {
			var engine []string
			for _, g := range left {
				if !strings.HasPrefix(g, "[harness]") {
					engine = append(engine, g)
				}
			}
			if len(engine) > 0 {
				e.Violate("C18/goroutine-left-after-stop", site, "%d engine goroutine(s) still alive %v after Stop returned: %v", len(engine), time.Duration(e.C.Settle), engine)
			}
			for _, g := range left {
				if strings.HasPrefix(g, "[harness]") {
					e.Violate("C18/call-never-returned", site, "a caller is still inside the engine after Stop returned: %s", g)
				}
			}
		}
		e.Oblig(2)
	} else {
		e.Probe("sink_blocked_past_grace")
	}
	// Emit after Stop is a silent no-op: its row never reaches a sink
	// (judged by the recorded invocation, not by the row's name: only Emit calls invoked after the
	// first Stop had returned count)
	afterStop := map[string]bool{}
	var firstStop *OpRec // the Stop call that returned first
	for _, rec := range e.Ops {
		if rec.Op.K == "stop" && rec.Ret >= 0 && (firstStop == nil || rec.Ret < firstStop.Ret) {
			firstStop = rec
		}
	}
	for _, rec := range e.Ops {
		if (rec.Op.K == "emit" || rec.Op.K == "emitsync") && in.StopRet > 0 && firstStop != nil &&
			(rec.Inv >= in.StopRet || (rec.Client == firstStop.Client && rec.Idx > firstStop.Idx)) {
			afterStop[rec.Op.Tag] = true
		}
	}
	for _, d := range in.Deliveries {
		for _, r := range d.Rows {
			for tag := range afterStop {
				if rowID(r) == tag || strings.Contains(canon(r), `"`+tag+`"`) {
					e.Violate("C18/emit-after-stop-processed", site, "row %s, emitted (step %d) after Stop had returned (step %d), was processed: %s", tag, opInv(e, tag), in.StopRet, canon(r))
				}
			}
		}
	}
	// rows after a poison row / panicking sink are still processed (direct kinds, before Stop)
	if kind == "direct" || kind == "analytic" {
		seen := map[string]bool{}
		for _, d := range in.Deliveries {
			if d.Sink == 0 {
				for _, r := range d.Rows {
					seen[rowID(r)] = true
				}
			}
		}
		for _, rec := range e.Ops {
			if rec.Op.K != "emitsync" || rec.Ret >= in.StopInv && in.StopInv > 0 {
				continue
			}
			a, _ := toFloat(rec.Op.Row["a"])
			if a == 13 {
				e.Probe("poison_row")
				continue
			}
			e.Oblig(1)
			if rec.Out == nil && rec.Err == "" {
				e.Violate("C18/row-lost-after-fault", site, "EmitSync(%s) returned no result although the row passes the filter (a=%v)", rec.Op.Tag, rec.Op.Row["a"])
			}
		}
	}
	for _, l := range e.LogErr {
		if strings.Contains(l, "panic") {
			e.Probe("panic_recovered_by_engine")
			break
		}
	}
	if in.StopInv > 0 {
		for _, rec := range e.Ops {
			if rec.Op.K == "emit" && rec.Inv < in.StopInv && rec.Ret > in.StopInv {
				e.Probe("stop_while_emit_in_flight")
				break
			}
		}
	}
	e.R.Summary = map[string]any{"kind": kind, "strategy": strat, "deliveries": len(in.Deliveries), "long_block": longBlock}
}

func (e *Env) unfinishedClients() []int {
	var out []int
	for i, t := range e.Tasks {
		if !t.Done() {
			out = append(out, i)
		}
	}
	return out
}

// advBetween: total clock advance forced by the scheduler between two sequence numbers.
func (e *Env) advBetween(from, to int) time.Duration {
	var d time.Duration
	for _, a := range e.Sim.AdvLog {
		if a.Step >= from && a.Step <= to {
			d += a.D
		}
	}
	return d
}

func opInv(e *Env, tag string) int {
	for _, rec := range e.Ops {
		if rec.Op.Tag == tag && (rec.Op.K == "emit" || rec.Op.K == "emitsync") {
			return rec.Inv
		}
	}
	return -1
}
