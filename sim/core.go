package sim

import (
	"crypto/sha256"
	"encoding/hex"
	"encoding/json"
	"fmt"
	"regexp"
	"runtime"
	"sort"
	"strings"
	"sync"
	"testing"
	"testing/synctest"
	"time"

	"github.com/rulego/streamsql"
	"github.com/rulego/streamsql/functions"
	"github.com/rulego/streamsql/logger"
	"github.com/rulego/streamsql/schema"
	"github.com/rulego/streamsql/types"
	"verif.local/simrt"
)

// ---------------------------------------------------------------------------------------------
// Case: everything a run is a function of (besides the code). JSON-serialisable; a replay file is
// a Case plus the decision list.

type Op struct {
	K   string `json:"k"`             // emit emitsync sleep stop stats dstats trigger addsink upsert delete yield
	I   int    `json:"i,omitempty"`   // instance index
	Row Row    `json:"row,omitempty"` // emit / upsert row
	D   int64  `json:"d,omitempty"`   // sleep ns
	T   string `json:"t,omitempty"`   // table name
	Key Vals   `json:"key,omitempty"` // delete key
	Tag string `json:"tag,omitempty"` // free tag (unique op id)
}

type SinkSpec struct {
	Alias  int    `json:"alias,omitempty"`  // >0: deliveries are recorded under sink index Alias-1 (registration order != logical role)
	Mode   string `json:"mode"`             // sync | async
	Fault  string `json:"fault,omitempty"`  // panic | slow | reenter
	Every  int    `json:"every,omitempty"`  // fault fires on calls n with n % Every == Phase
	Phase  int    `json:"phase,omitempty"`  //
	D      int64  `json:"d,omitempty"`      // slow: sleep ns
	Reent  string `json:"reent,omitempty"`  // stats | emit | addsink | stop
	Retain bool   `json:"retain,omitempty"` // keep delivered objects (C20)
}

type PerfSpec struct {
	DataChan     int     `json:"data_chan"`
	ResultChan   int     `json:"result_chan"`
	WindowOut    int     `json:"window_out"`
	MaxBuffer    int     `json:"max_buffer"`
	Strategy     string  `json:"strategy"`
	BlockTimeout int64   `json:"block_timeout"`
	Growth       float64 `json:"growth"`
	MinInc       int     `json:"min_inc"`
	Threshold    float64 `json:"threshold"`
	PoolSize     int     `json:"pool_size"`
	Workers      int     `json:"workers"`
}

type TableSpec struct {
	Name string   `json:"name"`
	Keys []string `json:"keys,omitempty"`
	Rows []Row    `json:"rows,omitempty"`
	Slow int64    `json:"slow,omitempty"` // custom TableSource whose Lookup sleeps this long
}

type InstSpec struct {
	SQL           string      `json:"sql"`
	Perf          *PerfSpec   `json:"perf,omitempty"`
	Sinks         []SinkSpec  `json:"sinks,omitempty"`
	Tables        []TableSpec `json:"tables,omitempty"`
	MaxPartitions int         `json:"max_partitions,omitempty"`
	ReadChan      bool        `json:"read_chan,omitempty"` // a harness goroutine drains ToChannel()
	ReadChanSlow  int64       `json:"read_chan_slow,omitempty"`
	Funcs         []string    `json:"funcs,omitempty"`  // custom scalar functions registered before Execute (F14)
	Schema        []SchemaFld `json:"schema,omitempty"` // WithSchema: input validation with defaults
	Late          bool        `json:"late,omitempty"`   // not created by Setup: a client op "create" does it while others run
}

type SchemaFld struct {
	Name     string `json:"name"`
	Type     string `json:"type"` // float string any
	Required bool   `json:"required,omitempty"`
	Default  any    `json:"default,omitempty"` // float64 or string (as decoded from JSON)
}

type Case struct {
	Prop      string         `json:"prop"`
	Seed      uint64         `json:"seed"`
	Tier      string         `json:"tier"`
	Variant   string         `json:"variant,omitempty"`
	Insts     []InstSpec     `json:"insts"`
	Clients   [][]Op         `json:"clients"`
	Policy    simrt.Policy   `json:"policy"`
	SchedSeed uint64         `json:"sched_seed"`
	Settle    int64          `json:"settle,omitempty"`    // ns of fake time after clients finished
	MaxSteps  int            `json:"max_steps,omitempty"` //
	Horizon   int64          `json:"horizon,omitempty"`   // ns of fake time allowed for the client phase
	X         map[string]any `json:"x,omitempty"`         // property-specific parameters
	FaultFree bool           `json:"fault_free,omitempty"`
}

func (c *Case) xInt(k string, def int) int {
	if v, ok := c.X[k]; ok {
		if n, ok := toInt64(v); ok {
			return int(n)
		}
	}
	return def
}
func (c *Case) xStr(k string) string {
	s, _ := c.X[k].(string)
	return s
}
func (c *Case) xBool(k string) bool {
	b, _ := c.X[k].(bool)
	return b
}

// normalise passes the case through JSON so that a generated case and a replayed case are the
// same value (number types, nil vs empty).
func (c *Case) normalise() *Case {
	b, err := json.Marshal(c)
	if err != nil {
		panic(err)
	}
	var out Case
	if err := json.Unmarshal(b, &out); err != nil {
		panic(err)
	}
	return &out
}

// ---------------------------------------------------------------------------------------------
// Result

type Violation struct {
	Class string `json:"class"`
	Site  string `json:"site,omitempty"`
	Msg   string `json:"msg"`
}

type Result struct {
	Prop       string           `json:"prop"`
	Seed       uint64           `json:"seed"`
	Variant    string           `json:"variant,omitempty"`
	Violations []Violation      `json:"violations,omitempty"`
	Infra      string           `json:"infra,omitempty"` // harness / replay problem: never a verdict
	Digest     string           `json:"digest"`
	TraceHash  string           `json:"trace_hash"`
	Steps      int              `json:"steps"`
	Advances   int              `json:"advances"`
	Preempt    int              `json:"preempt"`
	SimNS      int64            `json:"sim_ns"`
	Goroutines int              `json:"goroutines"`
	Ties       int              `json:"ties,omitempty"`
	Diverged   int              `json:"diverged,omitempty"`
	Faults     map[string]int   `json:"faults,omitempty"`
	Probes     map[string]int   `json:"probes,omitempty"`
	Oblig      int              `json:"oblig"` // oracle obligations discharged (0 = vacuous run)
	Discard    string           `json:"discard,omitempty"`
	Switches   []string         `json:"switches,omitempty"`
	SwitchH    []uint32         `json:"switch_h,omitempty"` // hashes of the ordered site pairs of context switches
	FF         bool             `json:"ff,omitempty"`       // fault-free configuration class
	Case       *Case            `json:"case,omitempty"`
	Decisions  []simrt.Decision `json:"decisions,omitempty"`
	Log        []string         `json:"log,omitempty"`
	Summary    map[string]any   `json:"summary,omitempty"`
	EngineLog  []string         `json:"engine_log,omitempty"` // distinct Warn/Error lines of the engine
}

// ---------------------------------------------------------------------------------------------
// Env: the running simulation as a property sees it.

type Delivery struct {
	Inst, Sink int
	Start, End int // global sequence numbers at entry / exit of the sink
	T          time.Duration
	Rows       []map[string]any // deep copy taken at delivery
	Raw        []map[string]any // the delivered objects themselves (Retain)
	Emits      int              // number of Emit invocations (instance) begun before this delivery
	EmitsDone  int              // number of Emit invocations returned before this delivery
}

type OpRec struct {
	Client, Idx int
	Op          *Op
	Inv, Ret    int // global sequence numbers; Ret = -1 while pending
	TInv, TRet  time.Duration
	Out         map[string]any
	Err         string
	Stats       map[string]int64
}

type Inst struct {
	Idx        int
	Spec       *InstSpec
	S          *streamsql.Streamsql
	Deliveries []*Delivery
	ChanRecv   []*Delivery
	EmitInv    int
	EmitRet    int
	StopInv    int // seq of first Stop invocation (0 = none)
	StopRet    int // seq at which the first Stop returned (0 = not yet)
	sinkCalls  []int
	Tables     map[string]tableHandle
	quitRead   chan struct{}
}

type Env struct {
	T       *testing.T
	C       *Case
	Sim     *simrt.Sim
	R       *Result
	Insts   []*Inst
	Ops     []*OpRec
	Tasks   []*simrt.Task
	log     []string
	logOn   bool
	hash    interface{ Write([]byte) (int, error) }
	LogErr  []string      // engine log lines at Error/Warn level
	SimSkip time.Duration // fake time skipped before the workload (not counted as simulated time)
	hooks   PropHooks
	Ended   bool
	logMu   sync.Mutex
	// IngestT: fake times at which the watermark recorded an event arrival (observed through the
	// scheduler's grant of the lock site "window/watermark.go:*:lock:UpdateEventTime"; the next
	// thing that goroutine does is read the clock into lastEventTime); index = arrival number
	// among rows with a usable timestamp
	IngestT []time.Duration
	// IngestEnd: the last instant at which the same arrival consulted the watermark (lateness test)
	IngestEnd []time.Duration
}

// WatchIngest records event-time ingestion instants (no hook in /repo: the scheduler sees the
// grant of the mutex acquisition at the top of Watermark.UpdateEventTime).
func (e *Env) WatchIngest() {
	// One ingestion = one stay of a goroutine inside Watermark.UpdateEventTime (and what it calls
	// in watermark.go), whatever yield points that stay passes — its first lock today, but a
	// changed locking scheme or a statement-level build must not blind the observation.
	inside := map[int]bool{}
	e.Sim.OnGrant = func(step, label int, site string) {
		fn := site[strings.LastIndex(site, ":")+1:]
		wm := strings.HasPrefix(site, "window/watermark.go")
		if wm && (fn == "UpdateEventTime" || (inside[label] && fn == "sendWatermarkLocked")) {
			if !inside[label] {
				inside[label] = true
				e.IngestT = append(e.IngestT, e.Sim.Now())
				e.IngestEnd = append(e.IngestEnd, e.Sim.Now())
				e.Logf("ingest #%d", len(e.IngestT))
			}
			return
		}
		inside[label] = false
		if wm && fn == "IsEventTimeLate" {
			if n := len(e.IngestEnd); n > 0 {
				e.IngestEnd[n-1] = e.Sim.Now() // the lateness decision of the row being ingested
			}
		}
	}
}

// PropHooks lets a property intercept generic client operations.
type PropHooks struct {
	OnEmitSyncResult func(rec *OpRec)
	OnDelivery       func(d *Delivery)
	BeforeOp         func(client int, op *Op)
	CustomOp         func(env *Env, client int, rec *OpRec) bool
}

func (e *Env) Seq() int           { return e.Sim.Step() }
func (e *Env) Now() time.Duration { return e.Sim.Now() }

// counters: after the verdict the simulation free-runs to tear down and sinks may still fire on
// several goroutines at once — like Logf, nothing is counted any more then, and the maps are
// never touched by two goroutines at a time
func (e *Env) count(f func()) {
	e.logMu.Lock()
	defer e.logMu.Unlock()
	if !e.Ended {
		f()
	}
}
func (e *Env) ended() bool {
	e.logMu.Lock()
	defer e.logMu.Unlock()
	return e.Ended
}
func (e *Env) Fault(k string)         { e.count(func() { e.R.Faults[k]++ }) }
func (e *Env) Probe(k string)         { e.count(func() { e.R.Probes[k]++ }) }
func (e *Env) ProbeN(k string, n int) { e.count(func() { e.R.Probes[k] += n }) }
func (e *Env) Oblig(n int)            { e.count(func() { e.R.Oblig += n }) }

func (e *Env) Violate(class, site, format string, args ...any) {
	msg := fmt.Sprintf(format, args...)
	for _, v := range e.R.Violations {
		if v.Class == class && v.Site == site {
			return // one witness per (class, site) per run
		}
	}
	e.R.Violations = append(e.R.Violations, Violation{Class: class, Site: site, Msg: msg})
}

func (e *Env) Logf(format string, args ...any) {
	// after the verdict the simulation free-runs to tear down; sinks may still fire then, on
	// several goroutines at once: nothing is logged any more
	e.logMu.Lock()
	defer e.logMu.Unlock()
	if e.Ended {
		return
	}
	line := fmt.Sprintf("%06d %12d ", e.Sim.Step(), int64(e.Sim.Now())) + fmt.Sprintf(format, args...)
	e.hash.Write([]byte(line))
	e.hash.Write([]byte{'\n'})
	if e.logOn {
		e.log = append(e.log, line)
	}
}

// Sleep blocks the calling (non-scheduler) goroutine for d of fake time and re-enters the
// scheduler's control afterwards.
func (e *Env) Sleep(d time.Duration) {
	time.Sleep(d)
	simrt.Yield("harness:woke")
}

// capture logger: engine log lines are part of the observable history (probes only).
type capLogger struct{ e *Env }

func (l capLogger) Debug(format string, args ...any) {
	if strings.HasPrefix(format, "Channel expansion completed") && len(args) == 1 {
		if n, ok := args[0].(int); ok && n > 0 {
			l.e.Probe("expansion_migrated_rows")
		}
	}
}
func (l capLogger) Info(format string, args ...any) {}
func (l capLogger) Warn(format string, args ...any) {
	l.e.LogErr = append(l.e.LogErr, "W:"+format)
}
func (l capLogger) Error(format string, args ...any) {
	l.e.LogErr = append(l.e.LogErr, "E:"+fmt.Sprintf(format, args...))
	if strings.Contains(format, "panic") {
		l.e.Probe("engine_recovered_panic")
	}
}
func (l capLogger) SetLevel(level logger.Level) {}

func (p *PerfSpec) toConfig() types.PerformanceConfig {
	pc := types.DefaultPerformanceConfig()
	if p.DataChan > 0 {
		pc.BufferConfig.DataChannelSize = p.DataChan
	}
	if p.ResultChan > 0 {
		pc.BufferConfig.ResultChannelSize = p.ResultChan
	}
	if p.WindowOut > 0 {
		pc.BufferConfig.WindowOutputSize = p.WindowOut
	}
	if p.MaxBuffer > 0 {
		pc.BufferConfig.MaxBufferSize = p.MaxBuffer
	}
	if p.Strategy != "" {
		pc.OverflowConfig.Strategy = p.Strategy
		pc.OverflowConfig.AllowDataLoss = p.Strategy == "drop"
	}
	pc.OverflowConfig.BlockTimeout = time.Duration(p.BlockTimeout)
	if p.Growth > 0 {
		pc.OverflowConfig.ExpansionConfig.GrowthFactor = p.Growth
	}
	if p.MinInc > 0 {
		pc.OverflowConfig.ExpansionConfig.MinIncrement = p.MinInc
	}
	if p.Threshold > 0 {
		pc.OverflowConfig.ExpansionConfig.TriggerThreshold = p.Threshold
	}
	if p.PoolSize > 0 {
		pc.WorkerConfig.SinkPoolSize = p.PoolSize
	}
	if p.Workers > 0 {
		pc.WorkerConfig.SinkWorkerCount = p.Workers
	}
	return pc
}

// Setup creates every instance of the case (New, Execute, tables, sinks, channel reader) on a
// driver goroutine under the scheduler.
func (e *Env) Setup() error {
	var setupErr error
	err := e.Sim.Do("setup", func() {
		for i := range e.C.Insts {
			if e.C.Insts[i].Late {
				continue
			}
			if setupErr = e.createInst(i); setupErr != nil {
				return
			}
		}
	}, 200000, 0)
	if err != nil {
		return err
	}
	return setupErr
}

// createInst creates instance i of the case (instances are created in index order).
func (e *Env) createInst(i int) error {
	if len(e.Insts) != i {
		return fmt.Errorf("inst %d created out of order (have %d)", i, len(e.Insts))
	}
	var setupErr error
	{
		{
			spec := &e.C.Insts[i]
			in := &Inst{Idx: i, Spec: spec, Tables: map[string]tableHandle{}}
			opts := []streamsql.Option{streamsql.WithLogger(capLogger{e})}
			if spec.Perf != nil {
				opts = append(opts, streamsql.WithCustomPerformance(spec.Perf.toConfig()))
			}
			if len(spec.Schema) > 0 {
				sc := schema.Schema{Name: "verif"}
				for _, f := range spec.Schema {
					t := schema.TypeAny
					switch f.Type {
					case "float":
						t = schema.TypeFloat
					case "string":
						t = schema.TypeString
					}
					sc.Fields = append(sc.Fields, schema.FieldDef{Name: f.Name, Type: t, Required: f.Required, Default: f.Default})
				}
				opts = append(opts, streamsql.WithSchema(sc))
			}
			if spec.MaxPartitions > 0 {
				opts = append(opts, streamsql.WithAnalyticMaxPartitions(spec.MaxPartitions))
			}
			for _, fn := range spec.Funcs {
				registerTestFunc(fn)
			}
			in.S = streamsql.New(opts...)
			if err := in.S.Execute(spec.SQL); err != nil {
				return fmt.Errorf("inst %d: Execute(%q): %v", i, spec.SQL, err)
			}
			for _, ts := range spec.Tables {
				if err := e.registerTable(in, ts); err != nil {
					return err
				}
			}
			in.sinkCalls = make([]int, len(spec.Sinks))
			for k := range spec.Sinks {
				e.addSink(in, k, &spec.Sinks[k])
			}
			e.Insts = append(e.Insts, in)
			if spec.ReadChan {
				e.startChanReader(in)
			}
		}
	}
	return setupErr
}

func (e *Env) addSink(in *Inst, k int, sp *SinkSpec) {
	fn := func(rows []map[string]any) {
		if e.ended() {
			return // teardown: goroutines free-run, nothing is recorded any more
		}
		sinkID := k
		if sp.Alias > 0 {
			sinkID = sp.Alias - 1
		}
		d := &Delivery{Inst: in.Idx, Sink: sinkID, Start: e.Seq(), T: e.Now(), Rows: copyRows(rows),
			Emits: in.EmitInv, EmitsDone: in.EmitRet}
		if sp.Retain {
			d.Raw = rows
		}
		in.Deliveries = append(in.Deliveries, d)
		in.sinkCalls[k]++
		n := in.sinkCalls[k]
		e.Logf("sink i=%d k=%d n=%d rows=%s", in.Idx, k, n, canon(d.Rows))
		if e.hooks.OnDelivery != nil {
			e.hooks.OnDelivery(d)
		}
		fire := sp.Fault != "" && (sp.Every <= 1 || n%sp.Every == sp.Phase%sp.Every)
		if fire {
			switch sp.Fault {
			case "panic":
				e.Fault("sink_panic_" + sp.Mode)
				d.End = e.Seq()
				panic(fmt.Sprintf("injected sink panic i=%d k=%d n=%d", in.Idx, k, n))
			case "slow":
				e.Fault("sink_slow_" + sp.Mode)
				e.Sleep(time.Duration(sp.D))
			case "reenter":
				e.Fault("sink_reenter_" + sp.Reent)
				switch sp.Reent {
				case "stats":
					in.S.GetStats()
					in.S.GetDetailedStats()
				case "emit":
					// re-entrant emit of a row the query ignores
					in.S.Emit(map[string]any{"__reent": n})
				case "addsink":
					in.S.AddSink(func([]map[string]any) {})
				case "stop":
					e.doStop(in, -1)
				}
			}
		}
		d.End = e.Seq()
	}
	if sp.Mode == "sync" {
		in.S.AddSyncSink(fn)
	} else {
		in.S.AddSink(fn)
	}
}

func (e *Env) startChanReader(in *Inst) {
	ch := in.S.ToChannel()
	in.quitRead = make(chan struct{})
	e.Sim.Spawn(fmt.Sprintf("chanreader%d", in.Idx), func() {
		for {
			simrt.Yield("harness:chanreader:sel")
			select {
			case rows := <-ch:
				simrt.Yield("harness:chanreader:recv")
				d := &Delivery{Inst: in.Idx, Sink: -1, Start: e.Seq(), T: e.Now(), Rows: copyRows(rows)}
				in.ChanRecv = append(in.ChanRecv, d)
				e.Logf("chan i=%d rows=%s", in.Idx, canon(d.Rows))
				if in.Spec.ReadChanSlow > 0 {
					e.Sleep(time.Duration(in.Spec.ReadChanSlow))
				}
			case <-in.quitRead:
				simrt.Yield("harness:chanreader:quit")
				return
			}
		}
	})
}

func (e *Env) doStop(in *Inst, client int) {
	if in.StopInv == 0 {
		in.StopInv = e.Seq() + 1
	}
	e.Logf("stop-inv i=%d c=%d", in.Idx, client)
	in.S.Stop()
	if in.StopRet == 0 {
		in.StopRet = e.Seq() + 1
	}
	e.Logf("stop-ret i=%d c=%d", in.Idx, client)
}

// registerTestFunc registers the custom scalar function name(x) = 2*x + len(name) (F14).
func registerTestFunc(name string) {
	k := float64(len(name))
	functions.RegisterCustomFunction(name, functions.TypeMath, "verif", "test function", 1, 1,
		func(ctx *functions.FunctionContext, args []any) (any, error) {
			if f, ok := toFloat(args[0]); ok {
				return 2*f + k, nil
			}
			return nil, nil
		})
}

// StartClients spawns one goroutine per client op list.
func (e *Env) StartClients() {
	for ci := range e.C.Clients {
		ci := ci
		ops := e.C.Clients[ci]
		t := e.Sim.Spawn(fmt.Sprintf("client%d", ci), func() {
			for k := range ops {
				op := &ops[k]
				if k > 0 {
					simrt.Yield(fmt.Sprintf("harness:client%d", ci))
				}
				e.execOp(ci, k, op)
			}
		})
		e.Tasks = append(e.Tasks, t)
	}
}

func (e *Env) execOp(ci, k int, op *Op) {
	rec := &OpRec{Client: ci, Idx: k, Op: op, Inv: e.Seq(), TInv: e.Now(), Ret: -1}
	e.Ops = append(e.Ops, rec)
	// a panic that leaves the engine through a public call and reaches the caller's goroutine is
	// a verdict about the engine (it used to kill the worker process: "cannot decide", exit 2)
	defer func() {
		if x := recover(); x != nil {
			e.Violate(e.C.Prop+"/panic-reached-caller", op.K, "client %d op %d (%s %s): the call panicked in the caller's goroutine: %v", ci, k, op.K, op.Tag, x)
		}
	}()
	if e.hooks.BeforeOp != nil {
		e.hooks.BeforeOp(ci, op)
	}
	var in *Inst
	if op.I < len(e.Insts) {
		in = e.Insts[op.I]
	}
	switch op.K {
	case "emit":
		in.EmitInv++
		e.Logf("emit-inv c=%d i=%d %s", ci, op.I, op.Tag)
		in.S.Emit(copyRow(op.Row))
		in.EmitRet++
		e.Logf("emit-ret c=%d i=%d %s", ci, op.I, op.Tag)
	case "emitsync":
		e.Logf("emitsync-inv c=%d i=%d %s", ci, op.I, op.Tag)
		out, err := in.S.EmitSync(copyRow(op.Row))
		rec.Out = copyRow(out)
		if err != nil {
			rec.Err = err.Error()
		}
		e.Logf("emitsync-ret c=%d i=%d %s out=%s err=%s", ci, op.I, op.Tag, canon(rec.Out), rec.Err)
	case "sleep":
		e.Sleep(time.Duration(op.D))
	case "yield":
	case "stop":
		e.doStop(in, ci)
	case "stats":
		rec.Stats = in.S.GetStats()
	case "dstats":
		in.S.GetDetailedStats()
	case "trigger":
		in.S.TriggerWindow()
	case "addsink":
		sp := SinkSpec{Mode: op.T}
		if sp.Mode == "" {
			sp.Mode = "async"
		}
		in.Spec.Sinks = append(in.Spec.Sinks, sp)
		in.sinkCalls = append(in.sinkCalls, 0)
		e.addSink(in, len(in.Spec.Sinks)-1, &in.Spec.Sinks[len(in.Spec.Sinks)-1])
	case "create":
		if err := e.createInst(op.I); err != nil {
			rec.Err = err.Error()
		}
	case "regfn":
		registerTestFunc(op.T)
	case "unregfn":
		functions.Unregister(op.T)
	case "upsert":
		e.tableUpsert(in, op, rec)
	case "delete":
		e.tableDelete(in, op, rec)
	default:
		if e.hooks.CustomOp == nil || !e.hooks.CustomOp(e, ci, rec) {
			panic("unknown op " + op.K)
		}
	}
	rec.Ret = e.Seq()
	rec.TRet = e.Now()
	if op.K == "emitsync" && e.hooks.OnEmitSyncResult != nil {
		e.hooks.OnEmitSyncResult(rec)
	}
}

func (e *Env) clientsDone() bool {
	for _, t := range e.Tasks {
		if !t.Done() {
			return false
		}
	}
	return true
}

// RunClients schedules until every client finished. The case's policy (which may starve a
// client for long stretches) applies up to the step budget / simulated horizon; after that the
// run continues under the fair policy, so that "the client never finished" is only ever reported
// when it does not finish under fair scheduling either.
func (e *Env) RunClients() error {
	max := e.C.MaxSteps
	if max <= 0 {
		max = 50000
	}
	var dl time.Duration
	if e.C.Horizon > 0 {
		dl = e.Now() + time.Duration(e.C.Horizon)
	}
	err := e.Sim.Run(e.clientsDone, max, dl)
	if err == simrt.ErrDeadline || err == simrt.ErrMaxSteps {
		e.Probe("client_phase_finished_under_fair_policy")
		e.Sim.SetPolicy(simrt.Policy{Kind: "fair"})
		err = e.Sim.Run(e.clientsDone, max, 0)
	}
	return err
}

// Settle lets the engine run under a fair policy for d of fake time (timers fire, queues drain).
func (e *Env) Settle(d time.Duration) error {
	if e.Sim == nil {
		return nil
	}
	e.Sim.SetPolicy(simrt.Policy{Kind: "fair"})
	until := e.Now() + d
	err := e.Sim.Run(func() bool { return false }, 400000, until)
	if err == simrt.ErrDeadline {
		return nil
	}
	return err
}

// Do runs f on a fresh harness goroutine under the current policy.
func (e *Env) Do(name string, f func()) error { return e.Sim.Do(name, f, 200000, 0) }

var bubbleRe = regexp.MustCompile(`synctest bubble`)

// Census lists the goroutines of the bubble that are executing (or blocked in) engine code.
func Census() []string {
	buf := make([]byte, 1<<20)
	n := runtime.Stack(buf, true)
	var out []string
	for _, g := range strings.Split(string(buf[:n]), "\n\n") {
		if !bubbleRe.MatchString(g) {
			continue
		}
		lines := strings.Split(g, "\n")
		top := ""
		harness := false
		for _, l := range lines[1:] {
			if strings.HasPrefix(l, "verifsim.") || strings.HasPrefix(l, "verifsim/") {
				harness = true
			}
			if top == "" && strings.HasPrefix(l, "github.com/rulego/streamsql") && !strings.Contains(l, "verif.local/simrt.") {
				top = l
			}
		}
		if top != "" {
			// a goroutine whose stack bottoms out in harness code (client / sink caller) and that is
			// inside an engine call is reported with a marker
			if harness {
				top = "[harness] " + top
			}
			out = append(out, top)
		}
	}
	sort.Strings(out)
	return out
}

// ---------------------------------------------------------------------------------------------
// Properties

type Property interface {
	ID() string
	Gen(rng *simrt.Rand, seed uint64, tier string) *Case
	Run(e *Env)
}

var registry = map[string]Property{}

// hardExit, when set, prints the result and exits the process without tearing the bubble down.
var hardExit func(c *Case, r *Result)

func register(p Property) { registry[p.ID()] = p }

// genPolicy draws a scheduling policy (swarm style).
func genPolicy(rng *simrt.Rand, adv []time.Duration, dense bool) simrt.Policy {
	p := simrt.Policy{}
	kinds := []string{"uniform", "sticky", "sticky", "pct", "pct"}
	if dense {
		kinds = []string{"sticky", "sticky", "pct"}
	}
	p.Kind = kinds[rng.Intn(len(kinds))]
	switch p.Kind {
	case "sticky":
		p.StickyP = []float64{0.5, 0.8, 0.9, 0.97}[rng.Intn(4)]
		if dense {
			p.StickyP = []float64{0.9, 0.97, 0.99}[rng.Intn(3)]
		}
	case "pct":
		p.PCTDepth = 1 + rng.Intn(4)
		p.PCTHorizon = []int{200, 600, 2000}[rng.Intn(3)]
	}
	if len(adv) > 0 && rng.Bool(0.7) {
		p.AdvProb = []float64{0.005, 0.02, 0.05, 0.15}[rng.Intn(4)]
		for _, d := range adv {
			p.AdvChoices = append(p.AdvChoices, int64(d))
		}
	}
	if rng.Bool(0.5) {
		n := 1 + rng.Intn(3)
		for i := 0; i < n; i++ {
			p.Starve = append(p.Starve, simrt.StarveWin{From: rng.Intn(600), Len: 5 + rng.Intn(200)})
		}
	}
	return p
}

// RunCase executes one case inside a fresh synctest bubble.
func RunCase(t *testing.T, c *Case, decs []simrt.Decision, strict bool, keepLog bool) *Result {
	c = c.normalise()
	res := &Result{Prop: c.Prop, Seed: c.Seed, Variant: c.Variant, Faults: map[string]int{}, Probes: map[string]int{}}
	prop := registry[c.Prop]
	if prop == nil {
		res.Infra = "unknown property " + c.Prop
		return res
	}
	h := sha256.New()
	func() {
		defer func() {
			if r := recover(); r != nil {
				msg := fmt.Sprint(r)
				if strings.Contains(msg, "deadlock: main bubble goroutine has exited") {
					res.Probes["bubble_exit_with_blocked_goroutines"]++
					return
				}
				panic(r)
			}
		}()
		synctest.Test(t, func(t *testing.T) {
			env := &Env{T: t, C: c, R: res, hash: h, logOn: keepLog}
			env.Sim = simrt.Activate(c.SchedSeed, c.Policy)
			if decs != nil {
				env.Sim.SetReplay(decs, strict)
			}
			prop.Run(env)
			env.finish()
		})
	}()
	if res.Digest == "" {
		res.Digest = "incomplete" // the property returned before finish() (infra problem)
	}
	return res
}

// finish tears the simulation down: records statistics, releases every parked goroutine and
// stops all instances so that the bubble can end.
func (e *Env) finish() {
	s := e.Sim
	r := e.R
	r.Steps, r.Advances, r.Preempt = s.Steps, s.Advances, s.Preempt
	r.SimNS = int64(s.Now() - e.SimSkip)
	r.Goroutines = s.NumGoroutines()
	r.Ties, r.Diverged = s.Ties, s.Diverged
	th := sha256.New()
	for _, d := range s.Trace {
		fmt.Fprintf(th, "%s%d%s%d|", d.K, d.G, d.S, d.D)
	}
	r.TraceHash = hex.EncodeToString(th.Sum(nil))[:16]
	sw := make([]string, 0, len(s.SwitchSet))
	for k := range s.SwitchSet {
		sw = append(sw, k)
	}
	sort.Strings(sw)
	r.Switches = sw
	for _, k := range sw {
		hh := sha256.Sum256([]byte(k))
		r.SwitchH = append(r.SwitchH, uint32(hh[0])|uint32(hh[1])<<8|uint32(hh[2])<<16|uint32(hh[3])<<24)
	}
	r.FF = e.C.FaultFree
	r.Decisions = s.Trace
	r.Log = e.log
	seenLog := map[string]bool{}
	for _, l := range e.LogErr {
		if !seenLog[l] && len(r.EngineLog) < 20 {
			seenLog[l] = true
			r.EngineLog = append(r.EngineLog, l)
		}
	}
	e.logMu.Lock()
	e.Ended = true
	if hs, ok := e.hash.(interface{ Sum([]byte) []byte }); ok {
		r.Digest = hex.EncodeToString(hs.Sum(nil))[:16]
	}
	e.logMu.Unlock()
	// a run that ended in a deadlock cannot be torn down: the deadlocked goroutines would block
	// on real mutexes (not durably, for synctest) as soon as they are released. The verdict is
	// complete; hand it out and leave the process.
	for _, v := range r.Violations {
		if strings.Contains(v.Class, "lock-cycle") || strings.Contains(v.Class, "blocked-forever") || strings.Contains(v.Class, "never-returned") || strings.HasSuffix(v.Class, "-stuck") {
			if hardExit != nil {
				hardExit(e.C, r)
			}
		}
	}
	// free-run teardown (no longer part of the judged history)
	simrt.Deactivate()
	s.ReleaseAll()
	for _, in := range e.Insts {
		if in.quitRead != nil {
			close(in.quitRead)
		}
		in.S.Stop()
	}
	time.Sleep(30 * time.Second)
	synctest.Wait()
}
