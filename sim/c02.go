package sim

import (
	"verif.local/simrt"
)

// C02 — watermark discipline: no early firing, no on-time loss, bounded late updates, garbage
// timestamps ignored (DESIGN.md §3 C02). Tumbling and sliding are judged by checkTimeWindows,
// sessions by checkSessions (c10.go).

type c02 struct{}

func init() { register(c02{}) }

func (c02) ID() string { return "C02" }

func (c02) Gen(rng *simrt.Rand, seed uint64, tier string) *Case {
	max := 40
	if tier == "thorough" {
		max = 90
	}
	kinds := []string{"tumbling", "tumbling", "sliding", "sliding", "session"}
	c := genEvCase(rng, tier, evGenOpts{Kinds: kinds, AllowAL: true, Garbage: true, Idle: true, LateRows: 0.3, MaxRows: max, Burst: true, Stall: true})
	c.FaultFree = c.Insts[0].Sinks[0].Fault == "" && !c.xBool("garbage")
	return c
}

func (c02) Run(e *Env) {
	sp := loadEvSpec(e.C)
	if _, ok := evRun(e); !ok {
		return
	}
	l := buildLedger(e, sp)
	if sp.Kind == "session" {
		checkSessions(e, sp, l, "C02")
		return
	}
	checkTimeWindows(e, sp, l, "C02")
}
