package sim

import (
	"fmt"
	"time"

	"verif.local/simrt"
)

// C09 — counting windows emit, per key, consecutive batches of exactly N rows (DESIGN.md §3 C09).

type c09 struct{}

func init() { register(c09{}) }

func (c09) ID() string { return "C09" }

func genKeyTuples(rng *simrt.Rand, ncols int, adversarial bool) [][]any {
	if ncols == 0 {
		return [][]any{{}}
	}
	if adversarial && rng.Bool(0.35) {
		// pairs that collide under a naive separator join / string cast
		if ncols == 1 {
			// one scalar type per column (C04's quantifier): NULL vs '' and case are the only traps
			opts := [][][]any{{{nil}, {""}}, {{"a"}, {"A"}}, {{"a|b"}, {"a"}}, {{"\\|"}, {"|"}}}
			return opts[rng.Intn(len(opts))]
		}
		opts := [][][]any{
			{{"a|b", "c"}, {"a", "b|c"}},
			{{"", "x"}, {nil, "x"}},
			{{"a", ""}, {"a", nil}},
			{{"a|", "b"}, {"a", "|b"}},
			{{"x", "y"}, {"y", "x"}},
			{{"a\\", "b"}, {"a", "\\|b"}},
			{{"a\\|b", "c"}, {"a\\", "b|c"}},
		}
		return opts[rng.Intn(len(opts))]
	}
	pool := []any{"a", "b", "c", "dev-1", "dev-2"}
	if adversarial {
		pool = append(append([]any{}, keyPool...), "c", "\\", "a\\", "\\|b")
	}
	n := 1 + rng.Intn(4)
	seen := map[string]bool{}
	var out [][]any
	for len(out) < n {
		t := make([]any, ncols)
		for i := range t {
			t[i] = pool[rng.Intn(len(pool))]
		}
		if k := canon(t); !seen[k] {
			seen[k] = true
			out = append(out, t)
		} else if rng.Bool(0.3) {
			break
		}
	}
	return out
}

func (c09) Gen(rng *simrt.Rand, seed uint64, tier string) *Case {
	c := &Case{X: map[string]any{}}
	N := []int{1, 2, 3, 3, 5, 7, 16}[rng.Intn(7)]
	ncols := rng.Intn(3)
	adversarial := rng.Bool(0.5)
	tuples := genKeyTuples(rng, ncols, adversarial)
	if ncols >= 1 && rng.Bool(0.12) {
		// the same text as a number and as a string: whether these are one key or two is the
		// engine's choice (Run judges both readings), but it has to make it consistently
		tw := [][]any{{7, "7"}, {true, "true"}, {2.5, "2.5"}}[rng.Intn(3)]
		tuples = [][]any{make([]any, ncols), make([]any, ncols)}
		for i := 0; i < ncols; i++ {
			tuples[0][i], tuples[1][i] = "z", "z"
		}
		tuples[0][0], tuples[1][0] = tw[0], tw[1]
		c.X["typed_twins"] = true
	}
	keyCols := []string{"k1", "k2"}[:ncols]
	maxRows := 60
	if tier == "thorough" {
		maxRows = 120
	}
	// per-key lengths: exact multiples and N*k±1
	var lens []int
	total := 0
	for range tuples {
		k := rng.Intn(4)
		l := N*k + []int{-1, 0, 0, 1, 2}[rng.Intn(5)]
		if l < 0 {
			l = 0
		}
		if total+l > maxRows {
			l = maxRows - total
		}
		lens = append(lens, l)
		total += l
	}
	// interleave keys
	var ops []Op
	remaining := append([]int(nil), lens...)
	id := 0
	sleepP := []float64{0, 0.05, 0.3}[rng.Intn(3)]
	burst := rng.Bool(0.3)
	cur := 0
	// two producers, each owning the keys of one parity (a key's arrival order is its owner's
	// emission order), with an input buffer that grows while they emit
	twoProd := len(tuples) >= 2 && c.X["typed_twins"] == nil && rng.Bool(0.2) // (twin keys may be one key to the engine: one owner)
	var ops2 []Op
	for total > 0 {
		if !burst || remaining[cur] == 0 || rng.Bool(0.3) {
			cur = rng.Intn(len(tuples))
		}
		if remaining[cur] == 0 {
			continue
		}
		remaining[cur]--
		total--
		row := Row{"id": fmt.Sprintf("r%03d", id)}
		id++
		for i, col := range keyCols {
			v := tuples[cur][i]
			if v == nil && rng.Bool(0.5) {
				continue // missing instead of explicit NULL
			}
			row[col] = v
		}
		switch rng.Intn(8) {
		case 0:
			row["v"] = nil
		case 1:
		default:
			row["v"] = rng.Intn(21) - 5
		}
		dst := &ops
		if twoProd && cur%2 == 1 {
			dst = &ops2
		}
		if rng.Bool(sleepP) {
			*dst = append(*dst, Op{K: "sleep", D: int64(time.Duration(1+rng.Intn(2000)) * time.Microsecond)})
		}
		*dst = append(*dst, Op{K: "emit", Row: row, Tag: row["id"].(string)})
	}
	c.Clients = [][]Op{ops}
	if twoProd {
		c.Clients = append(c.Clients, ops2)
		c.X["two_producers"] = true
	}
	perf := &PerfSpec{ResultChan: 1 + rng.Intn(4), Workers: 1 + rng.Intn(2), PoolSize: 1 + rng.Intn(3)}
	if rng.Bool(0.6) {
		perf.Strategy = "block"
		perf.BlockTimeout = int64(time.Hour) // pure back-pressure
		perf.DataChan = 1 + rng.Intn(4)
		perf.WindowOut = 1 + rng.Intn(4)
	} else {
		perf.Strategy = "drop"
		perf.DataChan = id + 8
		perf.WindowOut = id + 8
		if rng.Bool(0.4) {
			// tiny window buffers without back-pressure on the input: results may be dropped at
			// the window output (counted); rows handed to the window must not be
			perf.WindowOut = 1 + rng.Intn(4)
		}
	}
	if twoProd {
		perf.Strategy, perf.BlockTimeout, perf.DataChan, perf.WindowOut = "expand", 0, 1+rng.Intn(3), id+8
		perf.Growth, perf.MinInc, perf.Threshold, perf.MaxBuffer = []float64{1.5, 2}[rng.Intn(2)], 1+rng.Intn(2), []float64{0.8, 1.0}[rng.Intn(2)], 4*id+16
	}
	sink := SinkSpec{Mode: "sync"}
	if rng.Bool(0.4) {
		sink.Fault, sink.Every = "slow", 1+rng.Intn(3)
		sink.D = int64([]time.Duration{100 * time.Microsecond, 5 * time.Millisecond, 300 * time.Millisecond}[rng.Intn(3)])
	}
	sel, grp := sqlKeyList(keyCols)
	c.Insts = []InstSpec{{SQL: fmt.Sprintf("SELECT %s%s FROM stream GROUP BY %sCountingWindow(%d)", sel, aggSelect, grp, N), Perf: perf, Sinks: []SinkSpec{sink}}}
	c.X["n"] = N
	c.X["ncols"] = ncols
	c.Policy = genPolicy(rng, []time.Duration{time.Microsecond, time.Millisecond, 100 * time.Millisecond, time.Second}, false)
	c.Settle = int64(2 * time.Second)
	c.Horizon = int64(6 * time.Hour)
	c.MaxSteps = 300000
	c.FaultFree = sink.Fault == "" && !adversarial
	if adversarial {
		c.Variant = "adversarial-keys"
	} else {
		c.Variant = "plain-keys"
	}
	return c
}

func (c09) Run(e *Env) {
	if err := e.Setup(); err != nil {
		e.R.Infra = "setup: " + err.Error()
		return
	}
	in := e.Insts[0]
	N := e.C.xInt("n", 1)
	keyCols := []string{"k1", "k2"}[:e.C.xInt("ncols", 0)]
	e.StartClients()
	if err := e.RunClients(); err != nil {
		if err == simrt.ErrMaxSteps {
			e.R.Discard = "step budget exhausted in client phase"
		} else {
			e.Violate("C09/producer-stuck", "", "client did not finish: %v; parked=%v", err, e.Sim.ParkedSites())
		}
		return
	}
	var st map[string]int64
	prev := -1
	for round := 0; round < 400; round++ { // until a whole settle period brings no progress
		if err := e.Settle(time.Duration(e.C.Settle)); err != nil {
			e.R.Discard = "settle: " + err.Error()
			return
		}
		if err := e.Do("stats", func() { st = in.S.GetStats() }); err != nil {
			e.R.Discard = "stats: " + err.Error()
			return
		}
		if len(in.Deliveries) == prev && st["data_chan_len"] == 0 && st["bufferUsed"] == 0 {
			break
		}
		prev = len(in.Deliveries)
	}
	if st["input_dropped_count"] > 0 {
		e.R.Discard = fmt.Sprintf("overflow drop (input_dropped=%d window dropped=%d): not judged", st["input_dropped_count"], windowDropped(st))
		e.Probe("discard_overflow")
		return
	}
	// Under the drop strategy the window's output hand-off is lossy by design: when the output
	// buffer is full it evicts the oldest pending result (not counted) or drops the new one
	// (counted) — whole results either way. The i-th delivered result of a key is then no longer
	// its i-th batch, but it still has to be one of the key's batches and later than the
	// previous one; completeness is only demanded when the buffer cannot overflow.
	dropped := int(windowDropped(st))
	lossy := dropped > 0 || (in.Spec.Perf.Strategy == "drop" && in.Spec.Perf.WindowOut < len(e.C.Clients[0])+len(e.C.Clients[len(e.C.Clients)-1]))
	if lossy {
		e.Probe("lossy_window_output")
	}
	type viol struct{ class, msg string }
	var keyOrder []string
	byID := map[string]map[string]any{}
	// judge under one notion of key identity; which of 7 and '7' (same text, different type) are
	// one grouping key is not fixed by the property, so a run is in violation only if it is
	// wrong under both readings
	judge := func(ident func([]any) string) []viol {
		var out []viol
		add := func(class, f string, a ...any) { out = append(out, viol{class, fmt.Sprintf(f, a...)}) }
		perKey := map[string][]string{}
		keyOrder = nil
		var allOps []Op // producers own disjoint keys: per key, concatenation preserves arrival order
		for _, cl := range e.C.Clients {
			allOps = append(allOps, cl...)
		}
		for _, op := range allOps {
			if op.K != "emit" {
				continue
			}
			id := op.Row["id"].(string)
			byID[id] = op.Row
			ks := ident(rowKeys(op.Row, keyCols))
			if _, ok := perKey[ks]; !ok {
				keyOrder = append(keyOrder, ks)
			}
			perKey[ks] = append(perKey[ks], id)
		}
		next := map[string]int{} // index of the next batch not yet seen, per key
		got := map[string]int{}
		seenID := map[string]bool{}
		for _, d := range in.Deliveries {
			for _, row := range d.Rows {
				r, err := parseWinResult(d, row, keyCols)
				if err != nil {
					add("C09/malformed-result", "%v", err)
					continue
				}
				ks := ident(r.Keys)
				ref, ok := perKey[ks]
				if !ok {
					add("C09/unknown-key", "result reports group %s which no emitted row has; result=%s", ks, canon(row))
					continue
				}
				got[ks]++
				if len(r.IDs) != N {
					add("C09/batch-size", "key %s result #%d has %d rows (ids %v), N=%d", ks, got[ks], len(r.IDs), r.IDs, N)
				}
				for _, id := range r.IDs {
					if seenID[id] {
						add("C09/row-in-two-results", "row %s contributes to two results", id)
					}
					seenID[id] = true
					if rr := byID[id]; rr != nil && ident(rowKeys(rr, keyCols)) != ks {
						add("C09/foreign-row", "result for key %s contains row %s of key %s", ks, id, ident(rowKeys(rr, keyCols)))
					}
				}
				i := next[ks]
				match := -1
				for j := i; (j+1)*N <= len(ref); j++ {
					if fmt.Sprint(r.IDs) == fmt.Sprint(ref[j*N:(j+1)*N]) {
						match = j
						break
					}
					if !lossy {
						break // without drops it has to be the very next batch
					}
				}
				switch {
				case (i+1)*N > len(ref):
					add("C09/extra-result", "key %s has %d rows but a result #%d was delivered (ids %v)", ks, len(ref), got[ks], r.IDs)
				case match < 0:
					add("C09/wrong-rows", "key %s result #%d has ids %v, expected rows %d..%d = %v%s", ks, got[ks], r.IDs, i*N+1, (i+1)*N, ref[i*N:(i+1)*N],
						map[bool]string{true: " or a later batch of that key (the window output may drop whole results)", false: ""}[lossy])
				default:
					next[ks] = match + 1
				}
				if msg := checkAggs(r, byID); msg != "" {
					add("C09/aggregate-mismatch", "key %s result #%d: %s", ks, got[ks], msg)
				}
			}
		}
		missing := 0
		for _, ks := range keyOrder {
			want := len(perKey[ks]) / N
			if got[ks] < want {
				missing += want - got[ks]
				if !lossy {
					add("C09/missing-batch", "key %s: %d rows emitted, N=%d: expected %d results at quiescence, got %d", ks, len(perKey[ks]), N, want, got[ks])
				}
			}
			if len(perKey[ks])%N != 0 {
				e.Probe("trailing_remainder")
			}
			if len(perKey[ks]) > 0 && len(perKey[ks])%N == 0 {
				e.Probe("exact_multiple")
			}
		}
		_ = missing
		e.R.Summary = map[string]any{"N": N, "keys": len(keyOrder), "rows": len(byID), "results": len(seenID) / max(1, N), "strategy": in.Spec.Perf.Strategy, "dropped_results": dropped}
		return out
	}
	typed := func(k []any) string { return keyString(k) }
	loose := func(k []any) string { // same text = same key, whatever the type; NULL stays apart
		parts := make([]string, len(k))
		for i, v := range k {
			if v == nil {
				parts[i] = "\x00null"
			} else {
				parts[i] = fmt.Sprint(v)
			}
		}
		return canon(parts)
	}
	vs := judge(typed)
	e.Oblig(len(in.Deliveries))
	if len(vs) > 0 && e.C.xBool("typed_twins") {
		e.Probe("typed_twin_keys_judged_both_ways")
		if vl := judge(loose); len(vl) == 0 {
			vs = nil
		}
	}
	for _, v := range vs {
		e.Violate(v.class, "", "%s", v.msg)
	}
	if len(keyOrder) > 1 {
		e.Probe("multi_key")
	}
}
