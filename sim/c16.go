package sim

import (
	"fmt"
	"strconv"
	"time"

	"github.com/anishathalye/porcupine"
	"verif.local/simrt"
)

// C16 — stream-table JOIN enriches each row from the table state at processing time
// (DESIGN.md §3 C16). Updater clients Upsert/Delete (every written value unique), prober clients
// EmitSync / Emit; the recorded history (invoke/return stamped with the scheduler's global
// sequence numbers) is checked for linearizability against a key->row map with porcupine, and
// every result for its shape (INNER drop / LEFT NULLs / alias columns).

type c16 struct{}

func init() { register(c16{}) }

func (c16) ID() string { return "C16" }

// key components of one scalar "family" per position; 1 and 1.0 are the same key, '1' is not
// (incl. neighbouring integers beyond 2^24 and 2^31: a key encoding that loses precision merges them)
var c16Keys = []any{1, 1.0, 2, 2.5, "1", "a", "2", 16777216, 16777217, 1234567890, 1234567891, 2147483648, 2147483649}

func normKey(v any) string {
	if v == nil {
		return "<nil>"
	}
	if f, ok := toFloat(v); ok {
		return "n:" + strconv.FormatFloat(f, 'f', -1, 64)
	}
	return fmt.Sprintf("s:%v", v)
}

func (c16) Gen(rng *simrt.Rand, seed uint64, tier string) *Case {
	c := &Case{X: map[string]any{}}
	left := rng.Bool(0.5)
	composite := rng.Bool(0.35)
	two := !composite && rng.Bool(0.3)
	join := "JOIN"
	if left {
		join = "LEFT JOIN"
	}
	on := "k = m.k"
	if composite {
		on += " AND k2 = m.k2"
	}
	sql := fmt.Sprintf("SELECT id, m.ver AS ver FROM stream %s meta m ON %s", join, on)
	mixed := ""
	if two {
		sql = fmt.Sprintf("SELECT id, m.ver AS ver, n.ver AS ver2 FROM stream %s meta m ON k = m.k %s meta2 n ON k = n.k", join, join)
		if rng.Bool(0.4) {
			// different join types in one statement: each JOIN keeps its own
			mixed = []string{"left_inner", "inner_left"}[rng.Intn(2)]
			j1, j2 := "LEFT JOIN", "JOIN"
			if mixed == "inner_left" {
				j1, j2 = "INNER JOIN", "LEFT JOIN"
			}
			sql = fmt.Sprintf("SELECT id, m.ver AS ver, n.ver AS ver2 FROM stream %s meta m ON k = m.k %s meta2 n ON k = n.k", j1, j2)
		}
	}
	c.X["mixed"] = mixed
	if rng.Bool(0.3) && !two {
		sql = fmt.Sprintf("SELECT s.id, m.ver AS ver FROM stream s %s meta m ON s.%s", join, map[bool]string{false: "k = m.k", true: "k = m.k AND s.k2 = m.k2"}[composite])
	}
	noAlias := false
	if rng.Bool(0.2) && !two {
		// no table alias: columns qualified by the table's own name, key fields derived from ON
		noAlias = true
		sql = fmt.Sprintf("SELECT id, meta.ver AS ver FROM stream %s meta ON %s", join, map[bool]string{false: "k = meta.k", true: "k = meta.k AND k2 = meta.k2"}[composite])
	}
	// window path: the row is enriched before Window.Add; CountingWindow(1) keyed by the joined
	// column turns every probe into one delivered batch
	windowed := !two && !composite && !noAlias && rng.Bool(0.2)
	if windowed {
		sql = fmt.Sprintf("SELECT m.ver AS ver, count(*) AS c, collect(id) AS ids FROM stream %s meta m ON k = m.k GROUP BY m.ver, CountingWindow(1)", join)
	}
	c.X["windowed"] = windowed
	if !windowed && rng.Bool(0.3) {
		// a WHERE over a joined column that holds for every row, matched or not ("WHERE may
		// reference joined columns"): an unmatched LEFT JOIN row must get through it with NULL
		col := "m.ver"
		if noAlias {
			col = "meta.ver"
		}
		sql += " WHERE coalesce(" + col + ", 0) >= 0"
		c.X["where_joined"] = true
	}
	c.X["left"], c.X["composite"], c.X["two"] = left, composite, two
	nkeys := 2 + rng.Intn(3)
	var keys [][]any
	seen := map[string]bool{}
	for len(keys) < nkeys {
		k := []any{c16Keys[rng.Intn(len(c16Keys))]}
		if composite {
			k = append(k, []any{"x", "y", 7}[rng.Intn(3)])
		}
		nk := normKey(k[0])
		if composite {
			nk += "|" + normKey(k[1])
		}
		if !seen[nk] {
			seen[nk] = true
			keys = append(keys, k)
		}
	}
	ver := 100
	nextVer := func() int { ver++; return ver }
	mkRow := func(k []any) Row {
		r := Row{"k": k[0], "ver": nextVer()}
		if composite {
			r["k2"] = k[1]
		}
		return r
	}
	// equivalent spellings of a numeric key component (1 vs 1.0)
	respell := func(v any) any {
		if f, ok := toFloat(v); ok && f == float64(int(f)) && rng.Bool(0.5) {
			if _, isInt := v.(int); isInt {
				return f
			}
			return int(f)
		}
		return v
	}
	tables := []TableSpec{{Name: "meta"}}
	if composite && !(noAlias && rng.Bool(0.7)) {
		tables[0].Keys = []string{"k", "k2"} // otherwise derived from the ON clause
	}
	for _, k := range keys {
		if rng.Bool(0.5) {
			tables[0].Rows = append(tables[0].Rows, mkRow(k))
		}
	}
	if two {
		t2 := TableSpec{Name: "meta2"}
		for _, k := range keys {
			if rng.Bool(0.5) {
				t2.Rows = append(t2.Rows, mkRow(k))
			}
		}
		tables = append(tables, t2)
	}
	if rng.Bool(0.3) {
		tables[0].Slow = int64([]time.Duration{10 * time.Microsecond, time.Millisecond}[rng.Intn(2)])
		if composite {
			tables[0].Keys = []string{"k", "k2"}
		}
	}
	nUpd, nProbe := 1+rng.Intn(2), 1+rng.Intn(2)
	nops := 4 + rng.Intn(8)
	if tier == "thorough" {
		nops = 6 + rng.Intn(12)
	}
	probeID := 0
	for u := 0; u < nUpd; u++ {
		var ops []Op
		for i := 0; i < nops; i++ {
			k := keys[rng.Intn(len(keys))]
			tbl := tables[rng.Intn(len(tables))].Name
			if rng.Bool(0.7) {
				row := mkRow([]any{respell(k[0]), k[len(k)-1]}[:len(k)])
				if composite {
					row["k2"] = k[1]
				}
				ops = append(ops, Op{K: "upsert", T: tbl, Row: row, Tag: fmt.Sprintf("w%d", row["ver"])})
			} else {
				key := Vals{respell(k[0])}
				if composite {
					key = append(key, k[1])
				}
				ops = append(ops, Op{K: "delete", T: tbl, Key: key, Tag: fmt.Sprintf("d%d", nextVer())})
			}
			if rng.Bool(0.3) {
				ops = append(ops, Op{K: "sleep", D: int64(time.Duration(1+rng.Intn(300)) * time.Microsecond)})
			}
		}
		c.Clients = append(c.Clients, ops)
	}
	for p := 0; p < nProbe; p++ {
		var ops []Op
		asyncProbe := rng.Bool(0.4) || windowed
		for i := 0; i < nops; i++ {
			var k []any
			switch rng.Intn(8) {
			case 0:
				k = []any{nil} // NULL key: never matches
			case 1:
				k = []any{99} // unknown key
			default:
				kk := keys[rng.Intn(len(keys))]
				k = []any{respell(kk[0])}
				if composite {
					k = append(k, kk[1])
				}
			}
			row := Row{"id": fmt.Sprintf("p%03d", probeID)}
			probeID++
			if k[0] != nil || rng.Bool(0.5) {
				row["k"] = k[0]
			}
			if composite {
				if len(k) > 1 {
					row["k2"] = k[1]
				} else {
					row["k2"] = "x"
				}
			}
			kind := "emitsync"
			if asyncProbe {
				kind = "emit"
			}
			ops = append(ops, Op{K: kind, Row: row, Tag: row["id"].(string)})
			if rng.Bool(0.3) {
				ops = append(ops, Op{K: "sleep", D: int64(time.Duration(1+rng.Intn(300)) * time.Microsecond)})
			}
		}
		c.Clients = append(c.Clients, ops)
	}
	perf := &PerfSpec{ResultChan: 64, Workers: 1 + rng.Intn(2), PoolSize: 2, Strategy: "block", BlockTimeout: int64(time.Hour), DataChan: 1 + rng.Intn(6), WindowOut: 64}
	c.Insts = []InstSpec{{SQL: sql, Perf: perf, Sinks: []SinkSpec{{Mode: "sync"}}, Tables: tables}}
	c.Policy = genPolicy(rng, []time.Duration{time.Microsecond, time.Millisecond}, false)
	c.Settle = int64(time.Second)
	c.MaxSteps = 300000
	c.FaultFree = tables[0].Slow == 0
	c.Variant = join
	return c
}

type c16In struct {
	Op    string // w d r
	Table string
	Key   string
	Ver   int
}
type c16Out struct {
	Found bool
	Ver   int
}

func (c16) Run(e *Env) {
	if err := e.Setup(); err != nil {
		e.R.Infra = "setup: " + err.Error()
		return
	}
	in := e.Insts[0]
	left, composite, two := e.C.xBool("left"), e.C.xBool("composite"), e.C.xBool("two")
	e.StartClients()
	if err := e.RunClients(); err != nil {
		if err == simrt.ErrMaxSteps {
			e.R.Discard = "step budget exhausted in client phase"
		} else {
			e.Violate("C16/client-stuck", "", "clients did not finish: %v; parked=%v", err, e.Sim.ParkedSites())
		}
		return
	}
	if err := e.Settle(time.Duration(e.C.Settle)); err != nil {
		e.R.Discard = "settle: " + err.Error()
		return
	}
	var st map[string]int64
	if err := e.Do("stats", func() { st = in.S.GetStats() }); err != nil || st["input_dropped_count"] > 0 || st["data_chan_len"] > 0 {
		e.R.Discard = "emit path not quiescent or dropped"
		return
	}
	endSeq := e.Seq() + 1
	keyOf := func(row map[string]any) string {
		k := normKey(row["k"])
		if composite {
			k += "|" + normKey(row["k2"])
		}
		return k
	}
	// initial table contents are writes that precede everything
	var ops []porcupine.Operation
	opn := 0
	add := func(client int, inp c16In, call, ret int, out c16Out) {
		ops = append(ops, porcupine.Operation{ClientId: client, Input: inp, Call: int64(2 * call), Output: out, Return: int64(2*ret + 1)})
		opn++
	}
	for _, ts := range in.Spec.Tables {
		for i, r := range ts.Rows {
			v, _ := toInt64(r["ver"])
			add(1000+i, c16In{"w", ts.Name, keyOf(r), int(v)}, -2, -1, c16Out{})
		}
	}
	// sink deliveries by probe id
	delivered := map[string]*Delivery{}
	deliveredRow := map[string]map[string]any{}
	windowed := e.C.xBool("windowed")
	for _, d := range in.Deliveries {
		for _, r := range d.Rows {
			id := rowID(r)
			if windowed {
				// CountingWindow(1): the batch's collect(id) names the probe
				if ids, ok := r["ids"].([]any); ok && len(ids) == 1 {
					id, _ = ids[0].(string)
				} else {
					e.Violate("C16/shape", "window-batch", "CountingWindow(1) result does not hold exactly one row: %s", canon(r))
					continue
				}
			}
			if _, dup := delivered[id]; dup {
				e.Violate("C16/duplicate-result", "", "probe %s delivered twice", id)
			}
			delivered[id] = d
			deliveredRow[id] = r
		}
	}
	if windowed {
		e.Probe("window_path_join")
	}
	leftT := map[string]bool{"meta": left, "meta2": left}
	switch e.C.xStr("mixed") {
	case "left_inner":
		leftT["meta"], leftT["meta2"] = true, false
	case "inner_left":
		leftT["meta"], leftT["meta2"] = false, true
	}
	tablesOfProbe := []string{"meta"}
	if two {
		tablesOfProbe = append(tablesOfProbe, "meta2")
	}
	verCol := map[string]string{"meta": "ver", "meta2": "ver2"}
	for _, rec := range e.Ops {
		op := rec.Op
		switch op.K {
		case "upsert":
			v, _ := toInt64(op.Row["ver"])
			add(rec.Client, c16In{"w", op.T, keyOf(op.Row), int(v)}, rec.Inv, rec.Ret, c16Out{})
		case "delete":
			k := normKey(op.Key[0])
			if composite {
				k += "|" + normKey(op.Key[1])
			}
			add(rec.Client, c16In{"d", op.T, k, 0}, rec.Inv, rec.Ret, c16Out{})
		case "emitsync", "emit":
			var out map[string]any
			ret := rec.Ret
			produced := false
			if op.K == "emitsync" {
				if rec.Err != "" {
					e.Violate("C16/emitsync-error", "", "EmitSync(%s): %s", op.Tag, rec.Err)
					continue
				}
				out, produced = rec.Out, rec.Out != nil
			} else {
				if d, ok := delivered[op.Tag]; ok {
					out, produced, ret = deliveredRow[op.Tag], true, d.End
				} else {
					ret = endSeq // dropped by INNER JOIN (or lost): judged at quiescence
				}
			}
			e.Oblig(1)
			// shape
			if produced {
				for _, t := range tablesOfProbe {
					if _, present := out[verCol[t]]; !present {
						e.Violate("C16/shape", "missing-column", "probe %s: joined column %s absent from result %s", op.Tag, verCol[t], canon(out))
					}
				}
				for _, t := range tablesOfProbe {
					if !leftT[t] && out[verCol[t]] == nil {
						e.Violate("C16/shape", "inner-null", "probe %s: INNER JOIN produced a row with NULL %s: %s", op.Tag, verCol[t], canon(out))
					}
				}
			} else if allLeft(leftT, tablesOfProbe) {
				e.Violate("C16/shape", "left-dropped", "probe %s (k=%s): LEFT JOIN produced no row", op.Tag, canon(op.Row["k"]))
				continue
			}
			// reads
			if produced {
				for _, t := range tablesOfProbe {
					v, isNum := toInt64(out[verCol[t]])
					add(rec.Client, c16In{"r", t, keyOf(op.Row), 0}, rec.Inv, ret, c16Out{Found: isNum && out[verCol[t]] != nil, Ver: int(v)})
				}
			} else if !two {
				// INNER, single table: no output == the lookup found nothing
				add(rec.Client, c16In{"r", "meta", keyOf(op.Row), 0}, rec.Inv, ret, c16Out{Found: false})
			} else if inner := innerTables(leftT, tablesOfProbe); len(inner) == 1 {
				// one INNER and one LEFT join: no output == the INNER table's lookup found nothing
				add(rec.Client, c16In{"r", inner[0], keyOf(op.Row), 0}, rec.Inv, ret, c16Out{Found: false})
			} else {
				e.Probe("inner_two_table_drop_not_attributable")
			}
		}
	}
	model := porcupine.Model{
		Partition: func(history []porcupine.Operation) [][]porcupine.Operation {
			m := map[string][]porcupine.Operation{}
			var order []string
			for _, o := range history {
				i := o.Input.(c16In)
				k := i.Table + "/" + i.Key
				if _, ok := m[k]; !ok {
					order = append(order, k)
				}
				m[k] = append(m[k], o)
			}
			var out [][]porcupine.Operation
			for _, k := range order {
				out = append(out, m[k])
			}
			return out
		},
		Init: func() interface{} { return c16Out{} },
		Step: func(state, input, output interface{}) (bool, interface{}) {
			st := state.(c16Out)
			i := input.(c16In)
			switch i.Op {
			case "w":
				return true, c16Out{Found: true, Ver: i.Ver}
			case "d":
				return true, c16Out{}
			default:
				o := output.(c16Out)
				return o.Found == st.Found && (!o.Found || o.Ver == st.Ver), st
			}
		},
		DescribeOperation: func(input, output interface{}) string {
			i := input.(c16In)
			o := output.(c16Out)
			if i.Op == "r" {
				return fmt.Sprintf("read %s[%s] -> found=%v ver=%d", i.Table, i.Key, o.Found, o.Ver)
			}
			return fmt.Sprintf("%s %s[%s] ver=%d", i.Op, i.Table, i.Key, i.Ver)
		},
	}
	res, info := porcupine.CheckOperationsVerbose(model, ops, 20*time.Second)
	_ = info
	switch res {
	case porcupine.Illegal:
		// find a witness partition
		msg := "history is not linearizable against the key->row model"
		parts := model.Partition(ops)
		for _, p := range parts {
			if r := porcupine.CheckOperations(porcupine.Model{Init: model.Init, Step: model.Step}, p); !r {
				var desc []string
				for _, o := range p {
					desc = append(desc, fmt.Sprintf("[%d,%d] c%d %s", o.Call, o.Return, o.ClientId, model.DescribeOperation(o.Input, o.Output)))
				}
				msg = fmt.Sprintf("not linearizable: %v", desc)
				break
			}
		}
		e.Violate("C16/not-linearizable", map[bool]string{false: "INNER", true: "LEFT"}[left], "%s", msg)
	case porcupine.Unknown:
		e.Probe("porcupine_timeout")
	}
	e.Probe("history_checked")
	if in.Spec.Tables[0].Slow > 0 {
		e.Probe("slow_table_source")
	}
	e.R.Summary = map[string]any{"sql": in.Spec.SQL, "ops": opn, "left": left, "composite": composite, "two_tables": two}
}

func allLeft(leftT map[string]bool, tables []string) bool {
	for _, t := range tables {
		if !leftT[t] {
			return false
		}
	}
	return true
}

func innerTables(leftT map[string]bool, tables []string) []string {
	var out []string
	for _, t := range tables {
		if !leftT[t] {
			out = append(out, t)
		}
	}
	return out
}
