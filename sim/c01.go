package sim

import (
	"time"

	"verif.local/simrt"
)

// C01 — tumbling windows count every accepted event exactly once, in its own window.
// C08 — sliding windows report each slide-aligned interval with exactly its rows.
// (DESIGN.md §3 C01 / C08). Event time; C01 also has a processing-time variant (c01pt.go).

type c01 struct{}
type c08 struct{}

func init() { register(c01{}); register(c08{}) }

func (c01) ID() string { return "C01" }
func (c08) ID() string { return "C08" }

func (c01) Gen(rng *simrt.Rand, seed uint64, tier string) *Case {
	if rng.Bool(0.25) {
		return genC01PT(rng, tier)
	}
	max := 40
	if tier == "thorough" {
		max = 100
	}
	c := genEvCase(rng, tier, evGenOpts{Kinds: []string{"tumbling"}, LateRows: 0.08, MaxRows: max, Adversary: true, Burst: true})
	c.FaultFree = c.Insts[0].Sinks[0].Fault == ""
	return c
}

func (c01) Run(e *Env) {
	if e.C.Variant == "processing-time" {
		runC01PT(e)
		return
	}
	sp := loadEvSpec(e.C)
	if _, ok := evRun(e); !ok {
		return
	}
	checkTimeWindows(e, sp, buildLedger(e, sp), "C01")
}

func (c08) Gen(rng *simrt.Rand, seed uint64, tier string) *Case {
	max := 40
	if tier == "thorough" {
		max = 100
	}
	c := genEvCase(rng, tier, evGenOpts{Kinds: []string{"sliding"}, LateRows: 0.08, MaxRows: max, Adversary: true, Burst: true})
	c.FaultFree = c.Insts[0].Sinks[0].Fault == ""
	return c
}

func (c08) Run(e *Env) {
	sp := loadEvSpec(e.C)
	if _, ok := evRun(e); !ok {
		return
	}
	checkTimeWindows(e, sp, buildLedger(e, sp), "C08")
}

var _ = time.Second
