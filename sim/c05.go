package sim

import (
	"fmt"
	"regexp"
	"sort"
	"strings"
	"time"

	"github.com/rulego/streamsql"
	"verif.local/simrt"
)

// C05 — non-aggregate queries are a stateless, ordered, row-wise filter and projection
// (DESIGN.md §3 C05). Instance 0 (A) is fed with Emit and observed through a sync sink, an async
// sink and a goroutine draining ToChannel(); instance 1 (B) is fed the same rows with EmitSync;
// a fresh instance (C) is created for a sample of rows. Differential oracle A = B = C plus a tiny
// reference for bare columns / aliases / literals / *.

type c05 struct{}

func init() { register(c05{}) }

func (c05) ID() string { return "C05" }

type selItem struct {
	SQL  string `json:"sql"`
	Out  string `json:"out"`            // output column name
	Kind string `json:"kind"`           // col | lit | expr
	Src  string `json:"src,omitempty"`  // col: source path (dotted, top level only for the reference)
	Lit  any    `json:"lit,omitempty"`  // lit: value
	Flat bool   `json:"flat,omitempty"` // col: top-level field (reference applies)
}

func genC05Query(rng *simrt.Rand) (string, []selItem, bool, []int, string) {
	where, widx, wconn := genC05WhereTerms(rng)
	if rng.Bool(0.12) {
		return "SELECT * FROM stream" + where, nil, true, widx, wconn
	}
	pool := []selItem{
		{SQL: "a", Out: "a", Kind: "col", Src: "a", Flat: true},
		{SQL: "b AS bb", Out: "bb", Kind: "col", Src: "b", Flat: true},
		{SQL: "s", Out: "s", Kind: "col", Src: "s", Flat: true},
		{SQL: "f AS flag", Out: "flag", Kind: "col", Src: "f", Flat: true},
		{SQL: "n", Out: "n", Kind: "col", Src: "n", Flat: true},
		{SQL: "missing_col", Out: "missing_col", Kind: "col", Src: "missing_col", Flat: true},
		{SQL: "o.x AS ox", Out: "ox", Kind: "col", Src: "o.x"},
		{SQL: "o.y.z AS z", Out: "z", Kind: "col", Src: "o.y.z"},
		{SQL: "arr[0].c AS c0", Out: "c0", Kind: "col", Src: "arr[0].c"},
		{SQL: "'lit' AS l", Out: "l", Kind: "lit", Lit: "lit"},
		{SQL: "a + b AS ab", Out: "ab", Kind: "expr"},
		{SQL: "a * 2 AS a2", Out: "a2", Kind: "expr"},
		{SQL: "b - 1.5 AS bm", Out: "bm", Kind: "expr"},
		{SQL: "o.x + a AS oxa", Out: "oxa", Kind: "expr"},
	}
	n := 1 + rng.Intn(5)
	items := []selItem{{SQL: "id", Out: "id", Kind: "col", Src: "id", Flat: true}}
	used := map[string]bool{"id": true}
	for len(items) < n+1 {
		it := pool[rng.Intn(len(pool))]
		if used[it.Out] {
			continue
		}
		used[it.Out] = true
		items = append(items, it)
	}
	var parts []string
	for _, it := range items {
		parts = append(parts, it.SQL)
	}
	return "SELECT " + strings.Join(parts, ", ") + " FROM stream" + where, items, false, widx, wconn
}

// c05Terms: WHERE terms with an independent reference (judged only on rows that carry every
// referenced column as a non-NULL value of the expected type, so NULL semantics stay out of it).
type c05Term struct {
	SQL    string
	Fields []string
	Eval   func(row map[string]any) bool
}

func numField(row map[string]any, k string) float64 { f, _ := toFloat(row[k]); return f }

func likeRef(pattern string) func(string) bool {
	var sb strings.Builder
	sb.WriteString("^")
	for _, ch := range pattern {
		switch ch {
		case '%':
			sb.WriteString("(?s:.*)")
		case '_':
			sb.WriteString("(?s:.)")
		default:
			sb.WriteString(regexp.QuoteMeta(string(ch)))
		}
	}
	sb.WriteString("$")
	re := regexp.MustCompile(sb.String())
	return re.MatchString
}

func likeTerm(pattern string) c05Term {
	m := likeRef(pattern)
	return c05Term{"s LIKE '" + pattern + "'", []string{"s"}, func(r map[string]any) bool { return m(r["s"].(string)) }}
}

var c05Terms = []c05Term{
	{"a > 3", []string{"a"}, func(r map[string]any) bool { return numField(r, "a") > 3 }},
	{"a <= 5", []string{"a"}, func(r map[string]any) bool { return numField(r, "a") <= 5 }},
	{"b >= 2.5", []string{"b"}, func(r map[string]any) bool { return numField(r, "b") >= 2.5 }},
	{"b < 7", []string{"b"}, func(r map[string]any) bool { return numField(r, "b") < 7 }},
	{"s = 'x'", []string{"s"}, func(r map[string]any) bool { return r["s"] == "x" }},
	{"s != 'y'", []string{"s"}, func(r map[string]any) bool { return r["s"] != "y" }},
	{"f = true", []string{"f"}, func(r map[string]any) bool { return r["f"] == true }},
	{"o.x > 1", []string{"o.x"}, func(r map[string]any) bool {
		o, _ := r["o"].(map[string]any)
		return numField(o, "x") > 1
	}},
	{"a + b > 6", []string{"a", "b"}, func(r map[string]any) bool { return numField(r, "a")+numField(r, "b") > 6 }},
	{"a = 4", []string{"a"}, func(r map[string]any) bool { return numField(r, "a") == 4 }},
	{"a != 4", []string{"a"}, func(r map[string]any) bool { return numField(r, "a") != 4 }},
	{"b != 2", []string{"b"}, func(r map[string]any) bool { return numField(r, "b") != 2 }},
	likeTerm("a%"), likeTerm("%ab"), likeTerm("a%ab"), likeTerm("%ab_"), likeTerm("a_%b"), likeTerm("%a%b%"), likeTerm("x%"),
}

// hasField: the row carries the (possibly dotted) column as a non-NULL value.
func hasField(row map[string]any, path string) bool {
	cur := any(row)
	for _, seg := range strings.Split(path, ".") {
		m, ok := cur.(map[string]any)
		if !ok {
			return false
		}
		cur, ok = m[seg]
		if !ok || cur == nil {
			return false
		}
	}
	return true
}

// genC05Where returns the WHERE clause, the indices of its terms and the connector.
func genC05WhereTerms(rng *simrt.Rand) (string, []int, string) {
	if rng.Bool(0.3) {
		return "", nil, ""
	}
	n := 1 + rng.Intn(3)
	conn := []string{" AND ", " OR "}[rng.Intn(2)]
	var parts []string
	var idx []int
	for i := 0; i < n; i++ {
		k := rng.Intn(len(c05Terms))
		idx = append(idx, k)
		parts = append(parts, c05Terms[k].SQL)
	}
	return " WHERE " + strings.Join(parts, conn), idx, strings.TrimSpace(conn)
}

func genC05Row(rng *simrt.Rand, i int) Row {
	row := Row{"id": fmt.Sprintf("r%03d", i)}
	if rng.Bool(0.85) {
		row["a"] = rng.Intn(10)
	}
	if rng.Bool(0.85) {
		row["b"] = float64(rng.Intn(20)) / 2
	}
	if rng.Bool(0.8) {
		if rng.Bool(0.5) {
			row["s"] = []string{"x", "y", "", "x y", "it's"}[rng.Intn(5)]
		} else {
			var sb strings.Builder // strings over {a,b}: overlapping false starts for LIKE
			for k := rng.Intn(7); k > 0; k-- {
				sb.WriteByte("aab"[rng.Intn(3)])
			}
			row["s"] = sb.String()
		}
	}
	if rng.Bool(0.7) {
		row["f"] = rng.Bool(0.5)
	}
	if rng.Bool(0.3) {
		row["n"] = nil
	}
	if rng.Bool(0.7) {
		o := map[string]any{}
		if rng.Bool(0.8) {
			o["x"] = rng.Intn(5)
		}
		if rng.Bool(0.6) {
			o["y"] = map[string]any{"z": []string{"p", "q"}[rng.Intn(2)]}
		}
		row["o"] = o
	}
	if rng.Bool(0.5) {
		var arr []any
		for k := 0; k < rng.Intn(3); k++ {
			arr = append(arr, map[string]any{"c": rng.Intn(9)})
		}
		row["arr"] = arr
	}
	return row
}

func (c05) Gen(rng *simrt.Rand, seed uint64, tier string) *Case {
	c := &Case{X: map[string]any{}}
	sql, items, star, widx, wconn := genC05Query(rng)
	var widxAny []any
	for _, k := range widx {
		widxAny = append(widxAny, k)
	}
	c.X["where_terms"], c.X["where_conn"] = widxAny, wconn
	var itemsAny []any
	for _, it := range items {
		itemsAny = append(itemsAny, map[string]any{"out": it.Out, "kind": it.Kind, "src": it.Src, "lit": it.Lit, "flat": it.Flat})
	}
	c.X["items"], c.X["star"] = itemsAny, star
	maxRows := 25
	if tier == "thorough" {
		maxRows = 60
	}
	n := 3 + rng.Intn(maxRows)
	perfA := &PerfSpec{ResultChan: []int{1, 2, 4, 64}[rng.Intn(4)], Workers: 1 + rng.Intn(3), PoolSize: 1 + rng.Intn(3)}
	switch rng.Intn(5) {
	case 0, 1:
		perfA.Strategy, perfA.BlockTimeout, perfA.DataChan = "block", int64(time.Hour), 1+rng.Intn(4)
	case 2:
		// the input buffer grows while rows flow (rows are migrated to a larger channel)
		perfA.Strategy, perfA.DataChan, perfA.Growth, perfA.MinInc, perfA.Threshold, perfA.MaxBuffer = "expand", 1+rng.Intn(3), []float64{1.5, 2}[rng.Intn(2)], 1+rng.Intn(2), []float64{0.8, 1.0}[rng.Intn(2)], 4*n+16
	default:
		perfA.Strategy, perfA.DataChan = "drop", n+8
	}
	sinksA := []SinkSpec{{Mode: "sync"}, {Mode: "async"}}
	faulty := false
	switch rng.Intn(5) {
	case 0:
		sinksA = append(sinksA, SinkSpec{Mode: "async", Fault: "panic", Every: 1 + rng.Intn(3)})
		faulty = true
	case 1:
		ps := SinkSpec{Mode: "sync", Fault: "panic", Every: 1 + rng.Intn(3), Alias: 3}
		if rng.Bool(0.5) {
			// registered BEFORE the observing sinks: its panic must not keep the result from them
			sinksA = []SinkSpec{ps, {Mode: "sync", Alias: 1}, {Mode: "async", Alias: 2}}
		} else {
			sinksA = append(sinksA, ps)
		}
		faulty = true
	case 2:
		sinksA = append(sinksA, SinkSpec{Mode: "async", Fault: "slow", Every: 1, D: int64([]time.Duration{time.Millisecond, 50 * time.Millisecond}[rng.Intn(2)])})
		faulty = true
	}
	instA := InstSpec{SQL: sql, Perf: perfA, Sinks: sinksA, ReadChan: true}
	if rng.Bool(0.4) {
		instA.ReadChanSlow = int64([]time.Duration{time.Millisecond, 20 * time.Millisecond, 300 * time.Millisecond}[rng.Intn(3)])
		faulty = true
	}
	instB := InstSpec{SQL: sql, Perf: &PerfSpec{ResultChan: 64, Workers: 1, PoolSize: 2}, Sinks: []SinkSpec{{Mode: "sync"}}}
	c.Insts = []InstSpec{instA, instB}
	var opsA, opsB []Op
	sleepP := []float64{0, 0.1, 0.4}[rng.Intn(3)]
	for i := 0; i < n; i++ {
		row := genC05Row(rng, i)
		if rng.Bool(sleepP) {
			opsA = append(opsA, Op{K: "sleep", D: int64(time.Duration(1+rng.Intn(3000)) * time.Microsecond)})
		}
		opsA = append(opsA, Op{K: "emit", I: 0, Row: row, Tag: row["id"].(string)})
		opsB = append(opsB, Op{K: "emitsync", I: 1, Row: row, Tag: row["id"].(string)})
		if i < 6 && rng.Bool(0.5) {
			opsB = append(opsB, Op{K: "fresh", Row: row, Tag: row["id"].(string)})
		}
	}
	c.Clients = [][]Op{opsA, opsB}
	if rng.Bool(0.6) {
		// a third client calls EmitSync on instance A while its processor goroutine handles the Emit
		// path: both evaluate the same compiled WHERE / field programs (ids get an "s" suffix)
		var opsC []Op
		for _, op := range opsA {
			if op.K == "emit" && rng.Bool(0.6) {
				row := Row(copyRow(op.Row))
				row["id"] = op.Tag + "s"
				opsC = append(opsC, Op{K: "emitsync", I: 0, Row: row, Tag: op.Tag + "s"})
			}
		}
		c.Clients = append(c.Clients, opsC)
	}
	c.Policy = genPolicy(rng, []time.Duration{time.Microsecond, time.Millisecond, 100 * time.Millisecond, time.Second}, false)
	c.Settle = int64(2 * time.Second)
	c.MaxSteps = 300000
	c.FaultFree = !faulty
	if star {
		c.Variant = "star"
	} else {
		c.Variant = "columns"
	}
	return c
}

func rowID(r map[string]any) string {
	s, _ := r["id"].(string)
	return s
}

func (c05) Run(e *Env) {
	fresh := map[string]map[string]any{}
	freshErr := map[string]string{}
	composed := map[string]bool{} // row id -> the predicate's value composed from its terms evaluated alone
	e.hooks.CustomOp = func(env *Env, client int, rec *OpRec) bool {
		if rec.Op.K != "fresh" {
			return false
		}
		// a brand-new instance sees only this row: independence from history
		s := streamsql.New(streamsql.WithLogger(capLogger{env}))
		if err := s.Execute(env.C.Insts[0].SQL); err != nil {
			freshErr[rec.Op.Tag] = err.Error()
			return true
		}
		out, err := s.EmitSync(copyRow(rec.Op.Row))
		if err != nil {
			freshErr[rec.Op.Tag] = err.Error()
		}
		fresh[rec.Op.Tag] = copyRow(out)
		if out == nil {
			fresh[rec.Op.Tag] = nil
		}
		s.Stop()
		// the predicate's terms one at a time, each in an instance of its own: whatever the
		// engine takes a comparison with a missing or NULL operand to be, "t1 AND t2" is true iff
		// both are and "t1 OR t2" iff one is (the generated predicates contain no NOT, so
		// three-valued and two-valued evaluation agree on whether the row passes)
		if l, ok := env.C.X["where_terms"].([]any); ok && len(l) >= 2 {
			conn := env.C.xStr("where_conn")
			val := conn == "AND"
			for _, x := range l {
				k, _ := toInt64(x)
				if int(k) >= len(c05Terms) {
					return true
				}
				st := streamsql.New(streamsql.WithLogger(capLogger{env}))
				if err := st.Execute("SELECT * FROM stream WHERE " + c05Terms[k].SQL); err != nil {
					return true
				}
				o, err := st.EmitSync(copyRow(rec.Op.Row))
				st.Stop()
				if err != nil {
					return true
				}
				if conn == "AND" {
					val = val && o != nil
				} else {
					val = val || o != nil
				}
			}
			composed[rec.Op.Tag] = val
		}
		return true
	}
	if err := e.Setup(); err != nil {
		e.R.Infra = "setup: " + err.Error()
		return
	}
	A, B := e.Insts[0], e.Insts[1]
	e.StartClients()
	if err := e.RunClients(); err != nil {
		if err == simrt.ErrMaxSteps {
			e.R.Discard = "step budget exhausted in client phase"
		} else {
			e.Violate("C05/producer-stuck", "", "clients did not finish: %v; parked=%v", err, e.Sim.ParkedSites())
		}
		return
	}
	var st map[string]int64
	prev := -1
	for round := 0; round < 400; round++ { // until a whole settle period brings no progress
		if err := e.Settle(time.Duration(e.C.Settle)); err != nil {
			e.R.Discard = "settle: " + err.Error()
			return
		}
		if err := e.Do("stats", func() { st = A.S.GetStats() }); err != nil {
			e.R.Discard = "stats: " + err.Error()
			return
		}
		n := len(A.Deliveries) + len(A.ChanRecv)
		if n == prev && st["data_chan_len"] == 0 && st["sink_pool_len"] == 0 {
			break
		}
		prev = n
	}
	if st["input_dropped_count"] > 0 {
		e.R.Discard = "input overflow drop: not judged"
		return
	}
	// emitted rows in order
	var emitted []map[string]any
	for _, op := range e.C.Clients[0] {
		if op.K == "emit" {
			emitted = append(emitted, op.Row)
		}
	}
	// B: EmitSync return values and its sync sink
	bOut := map[string]map[string]any{}
	bHas := map[string]bool{}
	type syncOnA struct {
		out map[string]any
		has bool
		err string
	}
	aSyncCalls := map[string]syncOnA{}
	for _, rec := range e.Ops {
		if rec.Op.K == "emitsync" && rec.Op.I == 0 {
			aSyncCalls[strings.TrimSuffix(rec.Op.Tag, "s")] = syncOnA{rec.Out, rec.Out != nil, rec.Err}
			continue
		}
		if rec.Op.K == "emitsync" {
			if rec.Err != "" {
				e.Violate("C05/emitsync-error", "", "EmitSync(%s) returned error %s", rec.Op.Tag, rec.Err)
			}
			bHas[rec.Op.Tag] = rec.Out != nil
			bOut[rec.Op.Tag] = rec.Out
		}
	}
	bSink := map[string]map[string]any{}
	for _, d := range B.Deliveries {
		for _, r := range d.Rows {
			bSink[rowID(r)] = r
		}
	}
	// A: deliveries per sink
	var aSyncSeq []string
	aSync := map[string]map[string]any{}
	aAsync := map[string][]map[string]any{}
	for _, d := range A.Deliveries {
		for _, r := range d.Rows {
			if strings.HasSuffix(rowID(r), "s") {
				continue // produced by the concurrent EmitSync client on A, judged separately
			}
			switch d.Sink {
			case 0:
				aSyncSeq = append(aSyncSeq, rowID(r))
				if _, dup := aSync[rowID(r)]; dup {
					e.Violate("C05/duplicate-result", "sync-sink", "row %s delivered twice to the sync sink", rowID(r))
				}
				aSync[rowID(r)] = r
			case 1:
				aAsync[rowID(r)] = append(aAsync[rowID(r)], r)
			}
		}
	}
	var chanSeq []string
	aChan := map[string]map[string]any{}
	for _, d := range A.ChanRecv {
		for _, r := range d.Rows {
			if strings.HasSuffix(rowID(r), "s") {
				continue
			}
			chanSeq = append(chanSeq, rowID(r))
			aChan[rowID(r)] = r
		}
	}
	star := e.C.xBool("star")
	var items []selItem
	if l, ok := e.C.X["items"].([]any); ok {
		for _, x := range l {
			m := x.(map[string]any)
			it := selItem{Out: m["out"].(string), Kind: m["kind"].(string)}
			it.Src, _ = m["src"].(string)
			it.Flat, _ = m["flat"].(bool)
			it.Lit = m["lit"]
			items = append(items, it)
		}
	}
	var wterms []c05Term
	if l, ok := e.C.X["where_terms"].([]any); ok {
		for _, x := range l {
			if k, ok := toInt64(x); ok && int(k) < len(c05Terms) {
				wterms = append(wterms, c05Terms[k])
			}
		}
	}
	wconn := e.C.xStr("where_conn")
	var accepted []string
	for _, row := range emitted {
		id := rowID(row)
		e.Oblig(1)
		b, bok := bOut[id], bHas[id]
		a, aok := aSync[id]
		if aok != bok {
			e.Violate("C05/sync-async-disagree", "presence", "row %s: Emit path delivered=%v, EmitSync path returned a result=%v (row %s)", id, aok, bok, canon(row))
			continue
		}
		if f, has := fresh[id]; has || freshErr[id] != "" {
			if freshErr[id] != "" {
				e.Violate("C05/fresh-instance-error", "", "fresh instance: %s", freshErr[id])
			} else if (f != nil) != bok {
				e.Violate("C05/history-dependent", "presence", "row %s: a fresh instance produced a result=%v, the long-running instance=%v", id, f != nil, bok)
			} else if f != nil && !deepEqual(f, b) {
				e.Violate("C05/history-dependent", "value", "row %s: fresh instance result %s, long-running instance %s", id, canon(f), canon(b))
			}
			e.Probe("fresh_instance_compared")
		}
		if sc, ok := aSyncCalls[id]; ok {
			e.Probe("emitsync_concurrent_with_emit_on_one_instance")
			want := copyRow(b)
			if want != nil {
				want["id"] = id + "s"
				if _, has := b["id"]; !has {
					delete(want, "id")
				}
			}
			if sc.err != "" {
				e.Violate("C05/emitsync-error", "", "EmitSync(%ss) on the instance that also serves Emit returned error %s", id, sc.err)
			} else if sc.has != bok {
				e.Violate("C05/sync-async-disagree", "concurrent-presence", "row %s: EmitSync issued while the same instance processed Emit rows returned a result=%v, a quiet instance returns a result=%v", id, sc.has, bok)
			} else if bok && !deepEqual(sc.out, want) {
				e.Violate("C05/sync-async-disagree", "concurrent-value", "row %s: EmitSync issued while the same instance processed Emit rows returned %s, a quiet instance returns %s", id, canon(sc.out), canon(want))
			}
		}
		if cv, has := composed[id]; has {
			e.Probe("where_composed_from_single_terms")
			if f, fh := fresh[id]; fh && (f != nil) != cv {
				site := "not-compositional"
				if wconn == "OR" && f == nil {
					for _, t := range wterms {
						for _, fl := range t.Fields {
							if !hasField(row, fl) {
								// one kind, recorded as a known finding: a term that cannot be evaluated
								// on a missing operand takes the whole OR chain down with it
								site = "not-compositional/OR-chain-rejected-with-a-missing-operand"
							}
						}
					}
				}
				e.Violate("C05/where", site, "row %s: WHERE %s let the row pass=%v, but its terms evaluated one at a time (each as the whole WHERE of an instance of its own) combine to %v", canon(row), e.C.Insts[0].SQL[strings.Index(e.C.Insts[0].SQL, " WHERE ")+7:], f != nil, cv)
			}
		}
		if len(wterms) > 0 {
			judge := true
			for _, t := range wterms {
				for _, f := range t.Fields {
					if !hasField(row, f) {
						judge = false
					}
				}
			}
			if judge {
				want := wconn == "AND"
				for _, t := range wterms {
					if wconn == "AND" {
						want = want && t.Eval(row)
					} else {
						want = want || t.Eval(row)
					}
				}
				e.Probe("where_judged_against_reference")
				if want != bok {
					e.Violate("C05/where", "", "row %s: WHERE %s is %v for this row, but a result was produced=%v", canon(row), e.C.Insts[0].SQL[strings.Index(e.C.Insts[0].SQL, " WHERE ")+7:], want, bok)
				}
			}
		}
		if !bok {
			continue
		}
		accepted = append(accepted, id)
		if !deepEqual(a, b) {
			e.Violate("C05/sync-async-disagree", "value", "row %s: Emit path delivered %s, EmitSync returned %s", id, canon(a), canon(b))
		}
		if s, ok := bSink[id]; !ok || !deepEqual(s, b) {
			e.Violate("C05/emitsync-return-vs-sink", "", "row %s: EmitSync returned %s but its sink received %s", id, canon(b), canon(s))
		}
		for _, r := range aAsync[id] {
			if !deepEqual(r, a) {
				e.Violate("C05/async-sink-differs", "", "row %s: async sink received %s, sync sink %s", id, canon(r), canon(a))
			}
		}
		if r, ok := aChan[id]; ok && !deepEqual(r, a) {
			e.Violate("C05/channel-differs", "", "row %s: channel delivered %s, sync sink %s", id, canon(r), canon(a))
		}
		// reference for the simple shapes
		if star {
			if !deepEqual(b, map[string]any(row)) {
				e.Violate("C05/projection", "star", "SELECT * on row %s returned %s", canon(row), canon(b))
			}
			continue
		}
		if len(b) != len(items) {
			e.Violate("C05/projection", "columns", "row %s: result has columns %v, query selects %d items; result %s", id, sortedKeysOf(b), len(items), canon(b))
		}
		for _, it := range items {
			v, present := b[it.Out]
			if !present {
				e.Violate("C05/projection", "missing-column", "row %s: selected column %q absent from the result %s (a missing source must appear as NULL)", id, it.Out, canon(b))
				continue
			}
			switch {
			case it.Kind == "lit":
				if !deepEqual(v, it.Lit) {
					e.Violate("C05/projection", "literal", "row %s: literal column %q = %s", id, it.Out, canon(v))
				}
			case it.Kind == "col" && it.Flat:
				want, ok := row[it.Src]
				if !ok {
					want = nil
				}
				if !deepEqual(v, want) {
					e.Violate("C05/projection", "column", "row %s: column %q = %s, source field %q = %s", id, it.Out, canon(v), it.Src, canon(want))
				}
			}
		}
	}
	// unknown results
	for id := range aSync {
		found := false
		for _, row := range emitted {
			if rowID(row) == id {
				found = true
			}
		}
		if !found {
			e.Violate("C05/unknown-result", "", "sync sink received a result with id %q that was never emitted", id)
		}
	}
	// order at the sync sink = emission order of accepted rows
	if strings.Join(aSyncSeq, ",") != strings.Join(accepted, ",") {
		e.Violate("C05/order", "sync-sink", "sync sink received %v, accepted rows in emission order are %v", aSyncSeq, accepted)
	}
	// channel: order-preserving subsequence; complete when nothing was dropped
	pos := map[string]int{}
	for i, id := range accepted {
		pos[id] = i
	}
	last := -1
	for _, id := range chanSeq {
		p, ok := pos[id]
		if !ok {
			e.Violate("C05/unknown-result", "channel", "channel delivered id %q which is not an accepted row", id)
			continue
		}
		if p <= last {
			e.Violate("C05/order", "channel", "channel delivered %v: not in emission order %v", chanSeq, accepted)
			break
		}
		last = p
	}
	// completeness at the channel is only promised when it cannot overflow: a reader goroutine can
	// be starved by the scheduler however fast it is, and the back-pressure path evicts the oldest
	// result without counting it
	roomy := A.Spec.Perf.ResultChan >= len(emitted)
	if roomy && len(chanSeq) != len(accepted) {
		e.Violate("C05/channel-lost-result", "", "ResultChannelSize=%d >= %d emitted rows, yet the channel delivered %d of %d results (output_dropped_count=%d)", A.Spec.Perf.ResultChan, len(emitted), len(chanSeq), len(accepted), st["output_dropped_count"])
	}
	if len(chanSeq) != len(accepted) {
		e.Probe("result_channel_full")
	}
	// async sink: same multiset as the sync sink
	for _, id := range accepted {
		if len(aAsync[id]) != 1 {
			e.Violate("C05/async-sink-multiset", "", "row %s delivered %d times to the async sink (sync sink: once)", id, len(aAsync[id]))
		}
	}
	if len(accepted) < len(emitted) {
		e.Probe("where_rejected_some")
	}
	if len(accepted) > 0 {
		e.Probe("where_accepted_some")
	}
	e.R.Summary = map[string]any{"sql": e.C.Insts[0].SQL, "rows": len(emitted), "accepted": len(accepted), "chan": len(chanSeq), "out_dropped": st["output_dropped_count"]}
}

func sortedKeysOf(m map[string]any) []string {
	var ks []string
	for k := range m {
		ks = append(ks, k)
	}
	sort.Strings(ks)
	return ks
}
