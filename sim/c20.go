package sim

import (
	"encoding/json"
	"fmt"
	"os"
	"os/exec"
	"sort"
	"strings"
	"time"

	"verif.local/simrt"
)

// C20 — caller data is never modified and instances do not influence each other
// (DESIGN.md §3 C20).
//
// variant "mutation-*": rows are kept by the harness (the same map object may be emitted twice
// and to two instances); at every sink delivery and at quiescence each emitted object must
// deep-equal the copy taken before the call; retained delivered objects must deep-equal the
// copy taken at delivery.
//
// variant "paired": two instances (same SQL, or different SQL sharing expression text over
// differently typed columns) run interleaved on the process-wide caches and registry; afterwards
// the worker re-executes itself once per instance to run that instance ALONE in a fresh process
// (fresh caches) with the same input, and the per-row outputs must be identical.

type c20 struct{}

func init() { register(c20{}) }

func (c20) ID() string { return "C20" }

var c20Kinds = []struct {
	Name, SQL string
	Window    bool
	Join      bool
}{
	{"projection", "SELECT id, a, o.x AS ox, a + b AS ab FROM stream WHERE a > 1", false, false},
	{"analytic_select", "SELECT id, lag(a) AS la, acc_sum(a) OVER (PARTITION BY p) AS s, v - lag(v) AS dv FROM stream", false, false},
	{"analytic_where", "SELECT id, a FROM stream WHERE had_changed(true, a)", false, false},
	{"changed_cols", "SELECT id, changed_cols('c_', true, a, b) FROM stream", false, false},
	{"func_group_key", "SELECT upper(s) AS us, count(*) AS c, collect(id) AS ids FROM stream GROUP BY upper(s), CountingWindow(2)", true, false},
	{"join", "SELECT id, m.ver AS ver FROM stream LEFT JOIN meta m ON a = m.k", false, true},
	{"join_window", "SELECT m.ver AS ver, count(*) AS c FROM stream JOIN meta m ON a = m.k GROUP BY m.ver, CountingWindow(2)", true, true},
	{"tumbling", "SELECT p, count(*) AS c, collect(id) AS ids FROM stream GROUP BY p, TumblingWindow('1s') WITH (TIMESTAMP='ts', TIMEUNIT='ms')", true, false},
	{"counting_plain", "SELECT p, count(*) AS c, sum(a) AS sa, collect(id) AS ids FROM stream GROUP BY p, CountingWindow(3)", true, false},
	// WithSchema: 'a' is missing in a fifth of the rows and has a default, 'zz' is never present
	{"schema_default", "SELECT id, a, zz FROM stream", false, false},
	{"unnest_objects", "SELECT id, unnest(l) AS e FROM stream", false, false},
	// array functions over a caller-owned []any (a fifth of the rows carry none): results are new
	// slices, the caller's is neither reordered nor shared with the result row
	{"array_funcs", "SELECT id, array_remove(arr, 'b') AS r, array_distinct(arr) AS d, array_union(arr, arr2) AS u, array_except(arr, arr2) AS x FROM stream", false, false},
}

func genC20Row(rng *simrt.Rand, i int) Row {
	row := Row{"id": fmt.Sprintf("r%03d", i), "a": rng.Intn(5), "b": rng.Intn(5), "p": []any{"x", "y", nil}[rng.Intn(3)],
		"s": []string{"ab", "Ab", "cd"}[rng.Intn(3)], "ts": int(fakeEpochMS) + i*400, "v": rng.Intn(9)}
	if rng.Bool(0.8) {
		row["o"] = map[string]any{"x": rng.Intn(4), "y": map[string]any{"z": "deep"}, "l": []any{1, "two", map[string]any{"k": 3}}}
	}
	if rng.Bool(0.5) {
		row["l"] = []any{map[string]any{"k": rng.Intn(3), "n": map[string]any{"d": 1}}, map[string]any{"k": 9}}
	}
	if rng.Bool(0.2) {
		delete(row, "a")
	}
	if rng.Bool(0.8) {
		pool := []any{"a", "b", "c", "b", "d", 1, "b"}
		var arr []any
		for k := 0; k < 2+rng.Intn(5); k++ {
			arr = append(arr, pool[rng.Intn(len(pool))])
		}
		row["arr"] = arr
		row["arr2"] = []any{"c", "b", "z"}[:1+rng.Intn(3)]
	}
	return row
}

func (c20) Gen(rng *simrt.Rand, seed uint64, tier string) *Case {
	if rng.Bool(0.4) {
		return genC20Paired(rng, tier)
	}
	c := &Case{X: map[string]any{}}
	kind := c20Kinds[rng.Intn(len(c20Kinds))]
	n := 4 + rng.Intn(14)
	var rows []any
	for i := 0; i < n; i++ {
		rows = append(rows, map[string]any(genC20Row(rng, i)))
	}
	c.X["rows"] = encVal(rows)
	c.X["kind"] = kind.Name
	nInst := 1
	if rng.Bool(0.4) {
		nInst = 2
	}
	for i := 0; i < nInst; i++ {
		in := InstSpec{SQL: kind.SQL, Perf: &PerfSpec{ResultChan: 8, Workers: 1 + rng.Intn(2), PoolSize: 2, Strategy: "block", BlockTimeout: int64(time.Hour), DataChan: 1 + rng.Intn(6), WindowOut: 64},
			Sinks: []SinkSpec{{Mode: "sync", Retain: true}, {Mode: "async", Retain: true}}}
		if kind.Name == "schema_default" {
			in.Schema = []SchemaFld{{Name: "id", Type: "string", Required: true}, {Name: "a", Type: "float", Default: 7.0}, {Name: "zz", Type: "string", Default: "dflt"}, {Name: "s", Type: "string"}}
		}
		if kind.Join {
			in.Tables = []TableSpec{{Name: "meta", Rows: []Row{{"k": 1, "ver": 11}, {"k": 2, "ver": 12}, {"k": 3, "ver": 13}}}}
		}
		c.Insts = append(c.Insts, in)
	}
	var ops []Op
	for i := 0; i < n; i++ {
		inst := rng.Intn(nInst)
		k := "emitk"
		if !kind.Window && rng.Bool(0.5) {
			k = "emitsynck"
		}
		ops = append(ops, Op{K: k, I: inst, D: int64(i), Tag: fmt.Sprintf("r%03d", i)})
		if rng.Bool(0.3) { // the same map object again: to the same or the other instance
			ops = append(ops, Op{K: k, I: rng.Intn(nInst), D: int64(i), Tag: fmt.Sprintf("r%03d", i)})
		}
		if rng.Bool(0.2) {
			ops = append(ops, Op{K: "sleep", D: int64(time.Duration(1+rng.Intn(800)) * time.Millisecond)})
		}
	}
	c.Clients = [][]Op{ops}
	if nInst == 2 && rng.Bool(0.5) {
		// a second caller hands the very same map objects to the instances at the same time
		// (one message fanned out): nobody may see them changed, not even while a call is running
		var ops2 []Op
		for i := 0; i < n; i++ {
			if rng.Bool(0.7) {
				k := "emitk"
				if !kind.Window && rng.Bool(0.6) {
					k = "emitsynck"
				}
				ops2 = append(ops2, Op{K: k, I: rng.Intn(nInst), D: int64(i), Tag: fmt.Sprintf("r%03d", i)})
			}
		}
		c.Clients = append(c.Clients, ops2)
		c.X["fanout"] = true
	}
	c.Policy = genPolicy(rng, []time.Duration{time.Microsecond, time.Millisecond, 500 * time.Millisecond}, false)
	c.Settle = int64(3 * time.Second)
	c.MaxSteps = 300000
	c.FaultFree = true
	c.Variant = "mutation-" + kind.Name
	return c
}

var c20PairKinds = []struct{ Name, SQLa, SQLb, TypesB string }{
	// same expression text, differently typed columns (the compiled-program cache is keyed by text)
	{"expr_types", "SELECT id, a + b AS ab, a * 2 AS a2 FROM stream WHERE a > 1", "SELECT id, a + b AS ab, a * 2 AS a2 FROM stream WHERE a > 1", "float"},
	{"expr_strings", "SELECT id, a + b AS ab FROM stream", "SELECT id, a + b AS ab FROM stream", "string"},
	{"case_types", "SELECT id, CASE WHEN a > 2 THEN 'hi' ELSE 'lo' END AS lvl FROM stream", "SELECT id, CASE WHEN a > 2 THEN 'hi' ELSE 'lo' END AS lvl FROM stream", "float"},
	{"func_types", "SELECT id, upper(s) AS us, abs(a - b) AS d FROM stream", "SELECT id, upper(s) AS us, abs(a - b) AS d FROM stream WHERE a >= 0", "float"},
	{"analytic", "SELECT id, lag(a) AS la, acc_sum(a) OVER (PARTITION BY p) AS s FROM stream", "SELECT id, lag(a) AS la, acc_sum(a) OVER (PARTITION BY p) AS s FROM stream", "int"},
	{"where_only", "SELECT id, a FROM stream WHERE a + b > 4", "SELECT id, b FROM stream WHERE a + b > 4", "string"},
	// the same sub-expression text as a function / aggregate argument, over numbers in one instance
	// and strings in the other (facts about an expression remembered per text would leak)
	{"func_arg_types", "SELECT id, abs(a + b) AS r, round(a + b, 1) AS q FROM stream", "SELECT id, concat(a + b, '!') AS r, upper(a + b) AS q FROM stream", "string"},
	{"agg_arg_types", "SELECT p, sum(a + b) AS r, count(*) AS c FROM stream GROUP BY p, CountingWindow(2)", "SELECT p, max(a + b) AS r, count(*) AS c FROM stream GROUP BY p, CountingWindow(2)", "string"},
	// a parameterised aggregate with its parameter in one instance and defaulted in the other
	// (parameters parsed into a function object shared through the registry would leak)
	{"agg_param_default", "SELECT p, percentile(a, 0.1) AS r, count(*) AS c FROM stream GROUP BY p, CountingWindow(3)", "SELECT p, percentile(a) AS r, count(*) AS c FROM stream GROUP BY p, CountingWindow(3)", "int"},
	// expr('...'): an expression string evaluated through the process-wide bridge, per row
	{"expr_fn", "SELECT id, a, expr('a * 2') AS d FROM stream", "SELECT id, a, expr('a * 2') AS d, expr('a + b') AS e FROM stream", "float"},
	// two MATCH_RECOGNIZE instances; in one of them the DEFINE conditions cannot be evaluated on
	// its rows (a string compared with a number): scratch state of the evaluator must stay apart
	{"cep_eval_error", "SELECT * FROM stream MATCH_RECOGNIZE ( ORDER BY ts MEASURES MATCH_NUMBER() AS mn, COUNT(*) AS n, FIRST(id) AS fid, LAST(id) AS lid ONE ROW PER MATCH PATTERN (A+ B) DEFINE A AS a > 2, B AS a <= 2 )", "SELECT * FROM stream MATCH_RECOGNIZE ( ORDER BY ts MEASURES MATCH_NUMBER() AS mn, COUNT(*) AS n, FIRST(id) AS fid, LAST(id) AS lid ONE ROW PER MATCH PATTERN (A+ B) DEFINE A AS a > 2 AND b > 0, B AS a <= 2 )", "string"},
	// near twins: different queries whose expression texts differ only in letter case or spacing
	// (process-wide caches keyed by a normalised form of the text would confuse them)
	{"near_literal_case", "SELECT id, concat(s, '-Alert') AS t FROM stream", "SELECT id, concat(s, '-alert') AS t FROM stream", "int"},
	{"near_column_case", "SELECT id, upper(Site) AS u, a + B AS x FROM stream", "SELECT id, upper(site) AS u, a + b AS x FROM stream", "int"},
	{"near_like_case", "SELECT id FROM stream WHERE s LIKE 'A%' OR Site LIKE '%1'", "SELECT id FROM stream WHERE s LIKE 'a%' OR site LIKE '%1'", "int"},
	{"near_spacing", "SELECT id, concat(s, '- x') AS t FROM stream WHERE a+b > 3", "SELECT id, concat(s, '-  x') AS t FROM stream WHERE a + b > 3", "int"},
	{"near_case_expr", "SELECT id, CASE WHEN s = 'ab' THEN 'Hi' ELSE 'Lo' END AS lvl FROM stream", "SELECT id, CASE WHEN s = 'Ab' THEN 'hi' ELSE 'lo' END AS lvl FROM stream", "int"},
	{"near_group_key", "SELECT upper(Site) AS k, count(*) AS c FROM stream GROUP BY upper(Site), CountingWindow(2)", "SELECT upper(site) AS k, count(*) AS c FROM stream GROUP BY upper(site), CountingWindow(2)", "int"},
}

// genC20Registry: instance B uses a custom function that its client unregisters and registers
// again while instance A's rows flow (F14); A never uses it. Both must equal their solo runs.
func genC20Registry(rng *simrt.Rand) *Case {
	c := &Case{X: map[string]any{}}
	n := 6 + rng.Intn(10)
	fn := []string{"verif_twice", "verif_fn2"}[rng.Intn(2)]
	var opsA, opsB []Op
	cycles := rng.Bool(0.6)
	late := rng.Bool(0.5)
	if late {
		// B's functions are registered and its query is compiled while A is already evaluating:
		// what B's compilation sees of the registry must not depend on A
		for d := 0; d < 2+rng.Intn(4); d++ {
			opsB = append(opsB, Op{K: "regfn", T: fmt.Sprintf("verif_helper%d", d)})
		}
		opsB = append(opsB, Op{K: "regfn", T: fn}, Op{K: "create", I: 1})
		cycles = false
		for j := 0; j < 2*n; j++ {
			id := fmt.Sprintf("w%03d", j)
			opsA = append(opsA, Op{K: "emitsync", I: 0, Row: Row{"id": id, "a": rng.Intn(6), "b": rng.Intn(6), "s": "ab"}, Tag: id})
		}
	}
	for i := 0; i < n; i++ {
		opsA = append(opsA, Op{K: "emitsync", I: 0, Row: Row{"id": fmt.Sprintf("r%03d", i), "a": rng.Intn(6), "b": rng.Intn(6), "s": "ab"}, Tag: fmt.Sprintf("r%03d", i)})
		opsB = append(opsB, Op{K: "emitsync", I: 1, Row: Row{"id": fmt.Sprintf("r%03d", i), "a": rng.Intn(6)}, Tag: fmt.Sprintf("r%03d", i)})
		if cycles {
			// re-registration cycles between B's rows: the registry's published snapshot is
			// invalidated twice each time while A keeps evaluating
			opsB = append(opsB, Op{K: "unregfn", T: fn}, Op{K: "regfn", T: fn})
			for j := 0; j < 2; j++ { // A keeps evaluating: three rows for each of B's
				id := fmt.Sprintf("x%03d_%d", i, j)
				opsA = append(opsA, Op{K: "emitsync", I: 0, Row: Row{"id": id, "a": rng.Intn(6), "b": rng.Intn(6), "s": "ab"}, Tag: id})
			}
			continue
		}
		if late {
			continue
		}
		if i == n/3 {
			opsB = append(opsB, Op{K: "unregfn", T: fn})
		}
		if i == 2*n/3 {
			opsB = append(opsB, Op{K: "regfn", T: fn})
		}
	}
	c.Insts = []InstSpec{
		{SQL: []string{"SELECT id, a + b AS ab, upper(s) AS us, abs(a - b) AS d FROM stream WHERE a >= 0", "SELECT id, expr('a + b') AS ab, upper(s) AS us FROM stream WHERE a >= 0"}[rng.Intn(2)], Sinks: []SinkSpec{{Mode: "sync"}}},
		{SQL: fmt.Sprintf("SELECT id, %s(a) AS t, %s(a) + 1 AS t1 FROM stream WHERE %s(a) >= 0", fn, fn, fn), Sinks: []SinkSpec{{Mode: "sync"}}, Funcs: []string{fn}},
	}
	if late {
		c.Insts[1].Late, c.Insts[1].Funcs = true, nil
		c.X["late_instance"] = true
	}
	c.Clients = [][]Op{opsA, opsB}
	c.Policy = genPolicy(rng, []time.Duration{time.Microsecond}, false)
	c.Settle = int64(time.Second)
	c.MaxSteps = 200000
	c.FaultFree = true
	c.Variant = "paired"
	c.X["kind"] = "fn_registry"
	return c
}

func genC20Paired(rng *simrt.Rand, tier string) *Case {
	if rng.Bool(0.25) {
		return genC20Registry(rng)
	}
	c := &Case{X: map[string]any{}}
	kind := c20PairKinds[rng.Intn(len(c20PairKinds))]
	n := 5 + rng.Intn(12)
	mk := func(i int, types string) Row {
		a, b := rng.Intn(6), rng.Intn(6)
		row := Row{"id": fmt.Sprintf("r%03d", i), "p": []any{"x", "y"}[rng.Intn(2)], "s": []string{"ab", "Cd", "Ab", "abc"}[rng.Intn(4)]}
		row["ts"] = i + 1
		row["Site"], row["site"], row["B"] = fmt.Sprintf("up%d", rng.Intn(3)), fmt.Sprintf("lo%d", rng.Intn(3)), 10+rng.Intn(5)
		switch types {
		case "float":
			row["a"], row["b"] = float64(a)+0.5, float64(b)+0.25
		case "string":
			row["a"], row["b"] = fmt.Sprintf("s%d", a), fmt.Sprintf("t%d", b)
		default:
			row["a"], row["b"] = a, b
		}
		return row
	}
	var opsA, opsB []Op
	for i := 0; i < n; i++ {
		k := "emitsync"
		if strings.Contains(kind.SQLa, "Window(") || strings.Contains(kind.SQLa, "MATCH_RECOGNIZE") {
			k = "emit" // aggregation queries only take Emit; their sinks carry the output
		}
		opsA = append(opsA, Op{K: k, I: 0, Row: mk(i, "int"), Tag: fmt.Sprintf("r%03d", i)})
		opsB = append(opsB, Op{K: k, I: 1, Row: mk(i, kind.TypesB), Tag: fmt.Sprintf("r%03d", i)})
	}
	c.Insts = []InstSpec{{SQL: kind.SQLa, Sinks: []SinkSpec{{Mode: "sync"}}}, {SQL: kind.SQLb, Sinks: []SinkSpec{{Mode: "sync"}}}}
	c.Clients = [][]Op{opsA, opsB}
	// which instance evaluates first is the scheduler's choice (the cache entry is typed by the first use)
	c.Policy = genPolicy(rng, []time.Duration{time.Microsecond}, false)
	c.Settle = int64(time.Second)
	c.MaxSteps = 200000
	c.FaultFree = true
	c.Variant = "paired"
	c.X["kind"] = kind.Name
	return c
}

func diffMaps(a, b any) string {
	return fmt.Sprintf("now %s, before the call %s", canon(a), canon(b))
}

func (c20) Run(e *Env) {
	if e.C.Variant == "paired" || strings.HasPrefix(e.C.Variant, "solo") {
		runC20Paired(e)
		return
	}
	kind := e.C.xStr("kind")
	var objs []map[string]any
	var snaps []map[string]any
	for _, r := range decVal(normaliseAny(e.C.X["rows"])).([]any) {
		m := r.(map[string]any)
		objs = append(objs, m)
		snaps = append(snaps, copyRow(m))
	}
	emitted := map[int]bool{}
	checkCaller := func(when string) {
		for i := range objs {
			if emitted[i] && !deepEqual(objs[i], snaps[i]) {
				e.Violate("C20/caller-map-modified", kind, "row object %d handed to Emit/EmitSync was changed by the engine (%s): %s", i, when, diffMaps(objs[i], snaps[i]))
			}
		}
	}
	e.hooks.OnDelivery = func(d *Delivery) { checkCaller("seen at a sink delivery"); e.Oblig(1) }
	e.hooks.CustomOp = func(env *Env, client int, rec *OpRec) bool {
		i := int(rec.Op.D)
		in := env.Insts[rec.Op.I]
		switch rec.Op.K {
		case "emitk":
			emitted[i] = true
			in.EmitInv++
			in.S.Emit(objs[i])
			in.EmitRet++
		case "emitsynck":
			emitted[i] = true
			out, err := in.S.EmitSync(objs[i])
			rec.Out = copyRow(out)
			if err != nil {
				rec.Err = err.Error()
			}
		default:
			return false
		}
		checkCaller("right after the call returned")
		return true
	}
	if err := e.Setup(); err != nil {
		e.R.Infra = "setup: " + err.Error()
		return
	}
	e.StartClients()
	if err := e.RunClients(); err != nil {
		if err == simrt.ErrMaxSteps {
			e.R.Discard = "step budget exhausted in client phase"
		} else {
			e.Violate("C20/client-stuck", kind, "client did not finish: %v; parked=%v", err, e.Sim.ParkedSites())
		}
		return
	}
	if err := e.Settle(time.Duration(e.C.Settle)); err != nil {
		e.R.Discard = "settle: " + err.Error()
		return
	}
	checkCaller("at quiescence")
	e.Oblig(len(objs))
	// (b) rows given to a sink are not altered afterwards
	nDel := 0
	for _, in := range e.Insts {
		for _, d := range in.Deliveries {
			if d.Raw == nil {
				continue
			}
			nDel++
			e.Oblig(1)
			if !deepEqual(any(sliceAny(d.Raw)), any(sliceAny(d.Rows))) {
				e.Violate("C20/delivered-rows-modified", kind, "rows delivered to sink %d of instance %d were changed afterwards: now %s, at delivery %s", d.Sink, in.Idx, canon(d.Raw), canon(d.Rows))
			}
		}
	}
	if nDel > 0 {
		e.Probe("deliveries_retained")
	}
	if len(e.Insts) > 1 {
		e.Probe("same_object_to_two_instances")
	}
	if e.C.xBool("fanout") {
		e.Probe("same_object_from_two_callers_at_once")
	}
	e.R.Summary = map[string]any{"kind": kind, "rows": len(objs), "deliveries": nDel}
}

func sliceAny(rs []map[string]any) []any {
	out := make([]any, len(rs))
	for i, r := range rs {
		out[i] = r
	}
	return out
}

// normaliseAny: X values went through plain JSON; typed values ({"$f":..}) are restored by decVal,
// plain numbers arrive as float64 and are turned back into ints when integral.
func normaliseAny(v any) any {
	switch x := v.(type) {
	case float64:
		if x == float64(int(x)) {
			return json.Number(fmt.Sprint(int(x)))
		}
		return x
	case map[string]any:
		m := map[string]any{}
		for k, e := range x {
			if k == "$f" {
				if f, ok := e.(float64); ok {
					m[k] = f
					continue
				}
			}
			m[k] = normaliseAny(e)
		}
		return m
	case []any:
		l := make([]any, len(x))
		for i, e := range x {
			l[i] = normaliseAny(e)
		}
		return l
	}
	return v
}

// ---- paired / solo ----

func c20Outputs(e *Env, inst int) []string {
	var out []string
	for _, rec := range e.Ops {
		if rec.Op.K == "emitsync" && rec.Op.I == inst {
			out = append(out, fmt.Sprintf("%s=>%s|%s", rec.Op.Tag, canon(rec.Out), rec.Err))
		}
	}
	for _, d := range e.Insts[inst].Deliveries { // window path: what the sinks received
		for _, r := range d.Rows {
			rr := map[string]any{}
			for k, v := range r {
				if k != "window_id" { // window bounds on the clock: the arrival time is the schedule's, not the query's
					rr[k] = v
				}
			}
			out = append(out, "sink=>"+canon(rr))
		}
	}
	sort.Strings(out)
	return out
}

func runC20Paired(e *Env) {
	if err := e.Setup(); err != nil {
		e.R.Infra = "setup: " + err.Error()
		return
	}
	e.StartClients()
	if err := e.RunClients(); err != nil {
		if err == simrt.ErrMaxSteps {
			e.R.Discard = "step budget exhausted"
		} else {
			e.Violate("C20/client-stuck", "paired", "clients did not finish: %v", err)
		}
		return
	}
	if err := e.Settle(time.Duration(e.C.Settle)); err != nil {
		e.R.Discard = "settle: " + err.Error()
		return
	}
	e.R.Summary = map[string]any{"kind": e.C.xStr("kind")}
	if e.C.xStr("kind") == "fn_registry" {
		e.Fault("function_unregistered_while_rows_flow")
	}
	if e.C.xBool("late_instance") {
		e.Probe("instance_compiled_while_another_evaluates")
	}
	for i := range e.Insts {
		e.R.Summary[fmt.Sprintf("out%d", i)] = c20Outputs(e, i)
	}
	e.Oblig(1)
}

// PostRun (outside the bubble): run every instance alone in a fresh process and compare.
func (c20) PostRun(c *Case, r *Result) {
	if c.Variant != "paired" || r.Discard != "" || r.Infra != "" || r.Summary == nil {
		return
	}
	for i := range c.Insts {
		solo := *c
		solo.Variant = fmt.Sprintf("solo%d", i)
		solo.Insts = []InstSpec{c.Insts[i]}
		var ops []Op
		for _, op := range c.Clients[i] {
			o := op
			o.I = 0
			ops = append(ops, o)
		}
		solo.Clients = [][]Op{ops}
		f, err := os.CreateTemp("", "c20solo-*.json")
		if err != nil {
			r.Infra = "solo temp file: " + err.Error()
			return
		}
		json.NewEncoder(f).Encode(ReplayFile{Property: "C20", Case: &solo})
		f.Close()
		cmd := exec.Command(os.Args[0], "-test.run", "^TestSim$", "-sim.replay", f.Name(), "-sim.nodecs", "-sim.solo")
		outb, err := cmd.Output()
		os.Remove(f.Name())
		if err != nil {
			r.Infra = fmt.Sprintf("solo run %d failed: %v", i, err)
			return
		}
		var soloRes *Result
		for _, line := range strings.Split(string(outb), "\n") {
			if strings.HasPrefix(line, `{"prop"`) {
				var rr Result
				if json.Unmarshal([]byte(line), &rr) == nil {
					soloRes = &rr
				}
			}
		}
		if soloRes == nil || soloRes.Summary == nil {
			r.Infra = fmt.Sprintf("solo run %d produced no result", i)
			return
		}
		norm := func(v any) string { // no output at all: an empty list here, null after the JSON round trip
			if s := fmt.Sprint(v); s != "<nil>" {
				return s
			}
			return "[]"
		}
		want := norm(soloRes.Summary["out0"])
		got := norm(r.Summary[fmt.Sprintf("out%d", i)])
		r.Oblig++
		if r.Probes != nil {
			r.Probes["solo_compared"]++
		}
		if want != got {
			r.Violations = append(r.Violations, Violation{Class: "C20/paired-differs-from-solo", Site: c.xStr("kind"),
				Msg: fmt.Sprintf("instance %d (%s): run next to instance %d (%s) it returned %s; run alone in a fresh process it returns %s", i, c.Insts[i].SQL, 1-i, c.Insts[1-i].SQL, got, want)})
		}
	}
}
