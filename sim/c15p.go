package sim

import (
	"fmt"
	"regexp"
	"strings"
	"time"

	"verif.local/simrt"
)

// C15, variant "prev": DEFINE conditions that navigate (PREV) and overlap — on a plateau a row
// is both "not falling" and "not rising" — so runs fork and the classification of a reported
// match is not determined by the rows alone. The reference enumerates labellings: a run [i..j]
// is a valid match when SOME labelling spells a word of the pattern with every row satisfying
// the DEFINE of its label against the rows before it. Extents must be the leftmost-longest
// ones; the reported classification (ALL ROWS PER MATCH: CLASSIFIER() per row; ONE ROW PER
// MATCH: COUNT/SUM over A.v and B.v) must be that of a valid labelling of the reported run.
// Which of several valid labellings is reported is not fixed by the property and not checked.

var c15PrevPatterns = []struct{ SQL, Re string }{
	{"S A+ B+", "SA+B+"}, {"S A* B", "SA*B"}, {"S (A | B)+", "S(A|B)+"}, {"S A+ B+ A+", "SA+B+A+"},
	{"S A{2,} B", "SA{2,}B"}, {"S A+ B", "SA+B"}, {"S B+ A+", "SB+A+"}, {"S A+ B{2,}", "SA+B{2,}"},
}

func genC15Prev(rng *simrt.Rand, tier string) *Case {
	c := &Case{X: map[string]any{}}
	pat := c15PrevPatterns[rng.Intn(len(c15PrevPatterns))]
	allRows := rng.Bool(0.5)
	skipNext := rng.Bool(0.3)
	nparts := 1 + rng.Intn(3)
	skip := ""
	if skipNext {
		skip = "AFTER MATCH SKIP TO NEXT ROW "
	} else if rng.Bool(0.3) {
		skip = "AFTER MATCH SKIP PAST LAST ROW "
	}
	var sql string
	if allRows {
		sql = fmt.Sprintf("SELECT * FROM stream MATCH_RECOGNIZE ( PARTITION BY p ORDER BY ts MEASURES MATCH_NUMBER() AS mn, CLASSIFIER() AS c ALL ROWS PER MATCH %sPATTERN (%s) DEFINE A AS v >= PREV(v), B AS v <= PREV(v) )", skip, pat.SQL)
	} else {
		sql = fmt.Sprintf("SELECT * FROM stream MATCH_RECOGNIZE ( PARTITION BY p ORDER BY ts MEASURES MATCH_NUMBER() AS mn, COUNT(*) AS n, FIRST(id) AS fid, LAST(id) AS lid, COUNT(A.v) AS ca, SUM(A.v) AS sa, COUNT(B.v) AS cb, SUM(B.v) AS sb ONE ROW PER MATCH %sPATTERN (%s) DEFINE A AS v >= PREV(v), B AS v <= PREV(v) )", skip, pat.SQL)
	}
	c.X["re"], c.X["skip_next"], c.X["all_rows"] = pat.Re, skipNext, allRows
	n := 8 + rng.Intn(30)
	if tier == "thorough" {
		n = 8 + rng.Intn(70)
	}
	vals := make([]int, 3)
	for i := range vals {
		vals[i] = 10 + rng.Intn(5)
	}
	plateauP := []float64{0.2, 0.35, 0.5}[rng.Intn(3)]
	var ops []Op
	plateaus := make([]int, 3)
	for i := 0; i < n; i++ {
		pi := rng.Intn(nparts)
		switch r := rng.Float64(); {
		case r < plateauP && plateaus[pi] < 6: // plateau: the row fits A and B (each one doubles the engine's live runs; its guard is 10000)
			plateaus[pi]++
		case r < plateauP+(1-plateauP)*0.55:
			vals[pi] += 1 + rng.Intn(2)
		default:
			vals[pi] -= 1 + rng.Intn(3)
		}
		if rng.Bool(0.15) {
			ops = append(ops, Op{K: "sleep", D: int64([]time.Duration{time.Millisecond, 100 * time.Millisecond}[rng.Intn(2)])})
		}
		row := Row{"id": fmt.Sprintf("r%03d", i), "v": vals[pi], "ts": i + 1, "p": []any{"x", "y", "z"}[pi]}
		ops = append(ops, Op{K: "emit", Row: row, Tag: row["id"].(string)})
	}
	c.Clients = [][]Op{ops}
	perf := &PerfSpec{ResultChan: 64, Workers: 1 + rng.Intn(2), PoolSize: 2, Strategy: "block", BlockTimeout: int64(time.Hour), DataChan: 1 + rng.Intn(6)}
	c.Insts = []InstSpec{{SQL: sql, Perf: perf, Sinks: []SinkSpec{{Mode: "sync"}}}}
	c.Policy = genPolicy(rng, []time.Duration{time.Microsecond, time.Millisecond, 100 * time.Millisecond}, false)
	c.Settle = int64(time.Second)
	c.MaxSteps = 300000
	c.FaultFree = true
	c.Variant = "prev"
	return c
}

type c15pEv struct {
	id string
	v  int64
}

// labellings of rows i..j-1 that spell a word of re with every DEFINE satisfied
func c15pLabellings(re *regexp.Regexp, evs []c15pEv, i, j int, limit int) []string {
	var out []string
	buf := make([]byte, 0, j-i)
	var rec func(k int)
	rec = func(k int) {
		if len(out) >= limit {
			return
		}
		if k == j {
			if re.Match(buf) {
				out = append(out, string(buf))
			}
			return
		}
		for _, l := range []byte("SAB") {
			ok := true
			switch l {
			case 'A':
				ok = k > i && evs[k].v >= evs[k-1].v
			case 'B':
				ok = k > i && evs[k].v <= evs[k-1].v
			case 'S':
				ok = k == i // every pattern of this family starts with exactly one S
			}
			if ok {
				buf = append(buf, l)
				rec(k + 1)
				buf = buf[:len(buf)-1]
			}
		}
	}
	rec(i)
	return out
}

func runC15Prev(e *Env) {
	if err := e.Setup(); err != nil {
		e.R.Infra = "setup: " + err.Error()
		return
	}
	in := e.Insts[0]
	re := regexp.MustCompile("^(?:" + e.C.xStr("re") + ")$")
	skipNext := e.C.xBool("skip_next")
	allRows := e.C.xBool("all_rows")
	e.StartClients()
	if err := e.RunClients(); err != nil {
		if err == simrt.ErrMaxSteps {
			e.R.Discard = "step budget exhausted in client phase"
		} else {
			e.Violate("C15/client-stuck", "prev", "clients did not finish: %v; parked=%v", err, e.Sim.ParkedSites())
		}
		return
	}
	prev := -1
	for round := 0; round < 400; round++ {
		if err := e.Settle(time.Duration(e.C.Settle)); err != nil {
			e.R.Discard = "settle: " + err.Error()
			return
		}
		var st map[string]int64
		if err := e.Do("stats", func() { st = in.S.GetStats() }); err != nil {
			e.R.Discard = "stats: " + err.Error()
			return
		}
		if st["input_dropped_count"] > 0 {
			e.R.Discard = "input dropped"
			return
		}
		if st["data_chan_len"] == 0 && len(in.Deliveries) == prev {
			break
		}
		prev = len(in.Deliveries)
	}
	if err := e.Do("stop", func() { e.doStop(in, -1) }); err != nil {
		e.Violate("C15/stop-stuck", "prev", "Stop did not return: %v", err)
		return
	}
	if err := e.Settle(time.Duration(e.C.Settle)); err != nil {
		e.R.Discard = "settle: " + err.Error()
		return
	}
	parts := map[string][]c15pEv{}
	var partOrder []string
	partOfID := map[string]string{}
	for _, op := range e.C.Clients[0] {
		if op.K != "emit" {
			continue
		}
		p := canon(op.Row["p"])
		if _, ok := parts[p]; !ok {
			partOrder = append(partOrder, p)
		}
		v, _ := toInt64(op.Row["v"])
		id := op.Row["id"].(string)
		parts[p] = append(parts[p], c15pEv{id, v})
		partOfID[id] = p
	}
	idx := func(evs []c15pEv, id string) int {
		for i, x := range evs {
			if x.id == id {
				return i
			}
		}
		return -1
	}
	// the engine drops its oldest partial matches beyond 10000 per partition ("while the guards are
	// not hit"): an upper bound of the live labellings (every start, every row with both labels
	// doubling) must stay well below it
	for _, p := range partOrder {
		evs := parts[p]
		for t := range evs {
			live := 0.0
			for i := 0; i <= t; i++ {
				n := 1.0
				for k := i + 1; k <= t; k++ {
					if evs[k].v == evs[k-1].v {
						n *= 2
					}
				}
				live += n
			}
			if live > 5000 {
				e.R.Discard = "too many simultaneous partial matches for the engine's guard"
				return
			}
		}
	}
	// reference extents
	expected := map[string][]c15Match{}
	forks := false
	for _, p := range partOrder {
		evs := parts[p]
		for i := 0; i < len(evs); {
			best := -1
			for j := len(evs); j > i; j-- {
				if ls := c15pLabellings(re, evs, i, j, 2); len(ls) > 0 {
					best = j
					if len(ls) > 1 {
						forks = true
					}
					break
				}
			}
			if best < 0 {
				i++
				continue
			}
			expected[p] = append(expected[p], c15Match{evs[i].id, evs[best-1].id})
			if skipNext {
				i++
			} else {
				i = best
			}
		}
	}
	if forks {
		e.Probe("match_with_several_valid_labellings")
	}
	vals := func(evs []c15pEv, i, j int) string {
		var sb []string
		for _, x := range evs[i : j+1] {
			sb = append(sb, fmt.Sprint(x.v))
		}
		return strings.Join(sb, ",")
	}
	got := map[string][]c15Match{}
	mns := map[string][]int64{}
	if allRows {
		type grp struct {
			p      string
			mn     int64
			ids    []string
			labels []byte
		}
		var groups []*grp
		byKey := map[string]*grp{}
		for _, d := range in.Deliveries {
			for _, r := range d.Rows {
				id, _ := r["id"].(string)
				p, ok := partOfID[id]
				if !ok {
					e.Violate("C15/invalid-match", "prev", "ALL ROWS PER MATCH row %s is not an input row", canon(r))
					continue
				}
				mn, _ := toInt64(r["mn"])
				k := fmt.Sprintf("%s/%d", p, mn)
				g := byKey[k]
				if g == nil {
					g = &grp{p: p, mn: mn}
					byKey[k] = g
					groups = append(groups, g)
				}
				cl, _ := r["c"].(string)
				if len(cl) != 1 {
					cl = "?"
				}
				g.ids = append(g.ids, id)
				g.labels = append(g.labels, cl[0])
			}
		}
		for _, g := range groups {
			e.Oblig(1)
			evs := parts[g.p]
			i := idx(evs, g.ids[0])
			okRun := i >= 0 && i+len(g.ids) <= len(evs)
			for k := 0; okRun && k < len(g.ids); k++ {
				okRun = evs[i+k].id == g.ids[k]
			}
			if !okRun {
				e.Violate("C15/invalid-match", "prev", "partition %s match %d: rows %v are not a run of consecutive events of the partition", g.p, g.mn, g.ids)
				continue
			}
			j := i + len(g.ids) - 1
			valid := false
			for _, l := range c15pLabellings(re, evs, i, j+1, 1<<16) {
				if l == string(g.labels) {
					valid = true
				}
			}
			if !valid {
				e.Violate("C15/invalid-classification", "prev", "partition %s match %d rows %s..%s (v=%s) reported with CLASSIFIER() sequence %q: not a word of the pattern %s whose rows satisfy their DEFINE (A AS v >= PREV(v), B AS v <= PREV(v))", g.p, g.mn, g.ids[0], g.ids[len(g.ids)-1], vals(evs, i, j), g.labels, e.C.xStr("re"))
			}
			got[g.p] = append(got[g.p], c15Match{g.ids[0], g.ids[len(g.ids)-1]})
			mns[g.p] = append(mns[g.p], g.mn)
		}
	} else {
		for _, d := range in.Deliveries {
			for _, r := range d.Rows {
				e.Oblig(1)
				fid, _ := r["fid"].(string)
				lid, _ := r["lid"].(string)
				p, ok := partOfID[fid]
				if !ok || partOfID[lid] != p {
					e.Violate("C15/match-spans-partitions", "prev", "match %s: FIRST(id)=%q and LAST(id)=%q are not rows of one partition", canon(r), fid, lid)
					continue
				}
				evs := parts[p]
				i, j := idx(evs, fid), idx(evs, lid)
				if i < 0 || j < i {
					e.Violate("C15/invalid-match", "prev", "match %s: not an ordered run of partition %s", canon(r), p)
					continue
				}
				if n, _ := toInt64(r["n"]); int(n) != j-i+1 {
					e.Violate("C15/invalid-match", "prev", "match %s..%s of partition %s: COUNT(*)=%v but the run has %d rows", fid, lid, p, r["n"], j-i+1)
				}
				num := func(k string) float64 { f, _ := toFloat(r[k]); return f }
				valid := false
				var cands []string
				for _, l := range c15pLabellings(re, evs, i, j+1, 1<<16) {
					var ca, sa, cb, sb float64
					for k, ch := range []byte(l) {
						switch ch {
						case 'A':
							ca++
							sa += float64(evs[i+k].v)
						case 'B':
							cb++
							sb += float64(evs[i+k].v)
						}
					}
					if len(cands) < 4 {
						cands = append(cands, fmt.Sprintf("%s(ca=%v sa=%v cb=%v sb=%v)", l, ca, sa, cb, sb))
					}
					if ca == num("ca") && sa == num("sa") && cb == num("cb") && sb == num("sb") {
						valid = true
					}
				}
				if !valid {
					e.Violate("C15/invalid-classification", "prev", "partition %s match %s..%s (v=%s): MEASURES COUNT(A.v)=%v SUM(A.v)=%v COUNT(B.v)=%v SUM(B.v)=%v fit no labelling that spells %s with every DEFINE satisfied; valid labellings: %v", p, fid, lid, vals(evs, i, j), r["ca"], r["sa"], r["cb"], r["sb"], e.C.xStr("re"), cands)
				}
				got[p] = append(got[p], c15Match{fid, lid})
				mn, _ := toInt64(r["mn"])
				mns[p] = append(mns[p], mn)
			}
		}
	}
	nExpected := 0
	for _, p := range partOrder {
		for k, mn := range mns[p] {
			if mn != int64(k+1) {
				e.Violate("C15/match-number", "prev", "partition %s: MATCH_NUMBER sequence %v is not 1,2,3,..", p, mns[p])
				break
			}
		}
		e.Oblig(1)
		nExpected += len(expected[p])
		if g, x := got[p], expected[p]; fmt.Sprint(g) != fmt.Sprint(x) {
			cls := "C15/wrong-matches"
			if len(g) < len(x) {
				cls = "C15/missing-match"
			}
			evs := parts[p]
			e.Violate(cls, "prev", "partition %s (v=%s, pattern %s, A AS v >= PREV(v), B AS v <= PREV(v), skip_next=%v): reported matches %v, the leftmost-longest matches are %v", p, vals(evs, 0, len(evs)-1), e.C.xStr("re"), skipNext, g, x)
		}
	}
	if nExpected > 0 {
		e.Probe("matches_expected")
	}
	if len(partOrder) > 1 {
		e.Probe("interleaved_partitions")
	}
	e.R.Summary = map[string]any{"pattern": e.C.xStr("re"), "domain": "prev", "all_rows": allRows, "expected": nExpected, "partitions": len(partOrder)}
}
