package sim

import (
	"fmt"
	"strings"
	"time"

	"verif.local/simrt"
)

// C14 — analytic functions are sequential per partition and isolated across partitions
// (DESIGN.md §3 C14). Instance 0 is fed with Emit (one processor goroutine), instance 1 with
// EmitSync from 1-3 client goroutines that own disjoint partitions, so arrival order inside a
// partition is defined while partitions interleave at every per-field mutex. Reference state
// machines written from the documented definitions.

type c14 struct{}

func init() { register(c14{}) }

func (c14) ID() string { return "C14" }

type afSpec struct {
	Alias string `json:"alias"`
	Fn    string `json:"fn"`             // lag latest had_changed changed_col acc_sum acc_count acc_avg acc_min acc_max diff range
	Off   int    `json:"off,omitempty"`  // lag offset
	Def   *int   `json:"def,omitempty"`  // lag / latest default
	Ign   *bool  `json:"ign,omitempty"`  // lag 4th arg / had_changed / changed_col first arg
	Part  bool   `json:"part,omitempty"` // OVER (PARTITION BY p)
	When  string `json:"when,omitempty"` // "", "gt2", "ge0"
	PCol  string `json:"pcol,omitempty"` // partition column: "" = p, "o.p" = nested path (a top-level p with another value is a decoy)
	Cond  string `json:"cond,omitempty"` // acc_*: "" | "start" acc(v, w >= 3) | "startreset" acc(v, w >= 3, w < 1)
}

func (a afSpec) pcol() string {
	if a.PCol != "" {
		return a.PCol
	}
	return "p"
}

func (a afSpec) sql() string {
	var call string
	b := func(p *bool) string {
		if p != nil && *p {
			return "true"
		}
		return "false"
	}
	switch a.Fn {
	case "lag":
		call = "lag(v"
		if a.Off > 0 || a.Def != nil || a.Ign != nil {
			off := a.Off
			if off == 0 {
				off = 1
			}
			call += fmt.Sprintf(", %d", off)
		}
		if a.Def != nil || a.Ign != nil {
			d := 0
			if a.Def != nil {
				d = *a.Def
			}
			call += fmt.Sprintf(", %d", d)
		}
		if a.Ign != nil {
			call += ", " + b(a.Ign)
		}
		call += ")"
	case "latest":
		call = "latest(v)"
	case "had_changed":
		call = "had_changed(" + b(a.Ign) + ", v)"
	case "changed_col":
		call = "changed_col(" + b(a.Ign) + ", v)"
	case "diff":
		call = "v - lag(v)"
	case "range":
		call = "acc_max(v) - acc_min(v)"
	case "lagsum":
		call = "lag(v) - acc_sum(v)" // the first call is NULL on a partition's first row; the second still has to see that row
	case "cnt0":
		call = "acc_count(v) + 0"
	case "coal":
		call = "coalesce(lag(v), -1)"
	default:
		switch a.Cond {
		case "start":
			call = a.Fn + "(v, w >= 3)"
		case "startreset":
			call = a.Fn + "(v, w >= 3, w < 1)"
		default:
			call = a.Fn + "(v)"
		}
	}
	over := ""
	if a.Part || a.When != "" {
		var parts []string
		if a.Part {
			parts = append(parts, "PARTITION BY "+a.pcol())
		}
		switch a.When {
		case "gt2":
			parts = append(parts, "WHEN v > 2")
		case "ge0":
			parts = append(parts, "WHEN v >= 0")
		}
		over = " OVER (" + strings.Join(parts, " ") + ")"
	}
	return call + over + " AS " + a.Alias
}

func (c14) Gen(rng *simrt.Rand, seed uint64, tier string) *Case {
	if rng.Bool(0.3) {
		return genC14Shared(rng, tier)
	}
	c := &Case{X: map[string]any{}}
	part := rng.Bool(0.8)
	pcol := ""
	if part {
		switch r := rng.Float64(); {
		case r < 0.2:
			pcol = "o.p"
		case r < 0.45:
			pcol = "p, q" // composite key
		}
	}
	c.X["pcol"] = pcol
	fns := []string{"lag", "lag", "latest", "had_changed", "changed_col", "acc_sum", "acc_count", "acc_avg", "acc_min", "acc_max", "diff", "range", "lagsum"}
	nf := 1 + rng.Intn(4)
	var specs []afSpec
	var sel []string
	for i := 0; i < nf; i++ {
		a := afSpec{Alias: fmt.Sprintf("f%d", i), Fn: fns[rng.Intn(len(fns))], Part: part, PCol: pcol}
		switch a.Fn {
		case "lag":
			switch rng.Intn(4) {
			case 1:
				a.Off = 1 + rng.Intn(3)
			case 2:
				a.Off = 1 + rng.Intn(2)
				d := -1
				a.Def = &d
			case 3:
				a.Off = 1
				d := 0
				a.Def = &d
				ig := rng.Bool(0.5)
				a.Ign = &ig
			}
		case "had_changed", "changed_col":
			ig := rng.Bool(0.5)
			a.Ign = &ig
		case "acc_sum", "acc_count", "acc_avg", "acc_min", "acc_max":
			a.Cond = []string{"", "", "start", "startreset", "startreset"}[rng.Intn(5)]
		}
		if rng.Bool(0.25) && a.Fn != "diff" && a.Fn != "range" && a.Fn != "lagsum" {
			a.When = []string{"gt2", "ge0"}[rng.Intn(2)]
		}
		specs = append(specs, a)
		sel = append(sel, a.sql())
	}
	// changed_cols('c_', ignoreNull, v, w): multi-column fan-out (c_v / c_w appear when changed)
	ccIgn := rng.Bool(0.5)
	hasCC := rng.Bool(0.3)
	if hasCC {
		over := ""
		if part {
			over = " OVER (PARTITION BY " + afSpec{PCol: pcol}.pcol() + ")"
		}
		sel = append(sel, fmt.Sprintf("changed_cols('c_', %v, v, w)%s", ccIgn, over))
	}
	c.X["cc"], c.X["cc_ign"] = hasCC, ccIgn
	where := ""
	whereKind := ""
	switch rng.Intn(5) {
	case 0:
		where, whereKind = " WHERE v > 1", "plain_gt1"
	case 1:
		where, whereKind = " WHERE w >= 0", "plain_w"
	case 2:
		if part {
			where, whereKind = " WHERE had_changed(true, v) OVER (PARTITION BY "+afSpec{PCol: pcol}.pcol()+")", "analytic_hc"
		} else {
			where, whereKind = " WHERE had_changed(true, v)", "analytic_hc"
		}
	}
	sql := "SELECT id, p, v, " + strings.Join(sel, ", ") + " FROM stream" + where
	var specsAny []any
	for _, a := range specs {
		m := map[string]any{"alias": a.Alias, "fn": a.Fn, "off": a.Off, "part": a.Part, "when": a.When, "cond": a.Cond, "pcol": a.PCol}
		if a.Def != nil {
			m["def"] = *a.Def
		}
		if a.Ign != nil {
			m["ign"] = *a.Ign
		}
		specsAny = append(specsAny, m)
	}
	c.X["specs"], c.X["where"], c.X["part"] = specsAny, whereKind, part
	// partitions and owners
	nparts := 1 + rng.Intn(4)
	nclients := 1
	if part {
		nclients = 1 + rng.Intn(3)
	}
	partVals := []any{"a", "b", "a|b", nil, 1, "1", "", 2.5}
	rng.Intn(1)
	var parts []any
	var partQ []any // second key component (composite keys): pairs share components with each other
	used := map[string]bool{}
	for len(parts) < nparts {
		v := partVals[rng.Intn(len(partVals))]
		var q any
		if pcol == "p, q" {
			v = partVals[rng.Intn(3)] // few first components, so that pairs differ in the second only
			q = []any{"x", "y", "x|", nil}[rng.Intn(4)]
		}
		if k := canon([]any{v, q}); !used[k] {
			used[k] = true
			parts = append(parts, v)
			partQ = append(partQ, q)
		}
	}
	maxRows := 30
	if tier == "thorough" {
		maxRows = 80
	}
	n := 4 + rng.Intn(maxRows)
	opsEmit := make([][]Op, nclients)
	opsSync := make([][]Op, nclients)
	sleepP := []float64{0, 0.1}[rng.Intn(2)]
	for i := 0; i < n; i++ {
		pi := rng.Intn(len(parts))
		owner := pi % nclients
		row := Row{"id": fmt.Sprintf("r%03d", i), "w": rng.Intn(5)}
		if pcol == "p, q" {
			row["p"], row["q"] = parts[pi], partQ[pi]
		} else if pcol != "" {
			// nested partition key; the top-level column of the same bare name is a decoy
			// (o.p is always present, possibly NULL: what a row without o.p but with a top-level p
			// belongs to is not something the property defines)
			row["o"] = map[string]any{"q": i, "p": parts[pi]}
			row["p"] = []any{"a", "b", 1}[rng.Intn(3)]
		} else if parts[pi] != nil || rng.Bool(0.5) {
			row["p"] = parts[pi]
		}
		switch rng.Intn(10) {
		case 0:
			row["v"] = nil
		case 1:
			// missing
		default:
			row["v"] = rng.Intn(6)
		}
		if rng.Bool(sleepP) {
			opsEmit[owner] = append(opsEmit[owner], Op{K: "sleep", D: int64(time.Duration(1+rng.Intn(500)) * time.Microsecond)})
		}
		opsEmit[owner] = append(opsEmit[owner], Op{K: "emit", I: 0, Row: row, Tag: row["id"].(string)})
		opsSync[owner] = append(opsSync[owner], Op{K: "emitsync", I: 1, Row: row, Tag: row["id"].(string)})
	}
	maxParts := 0
	switch rng.Intn(3) {
	case 1:
		maxParts = nparts // exactly at the cap
	case 2:
		maxParts = nparts + 2
	}
	perf := &PerfSpec{ResultChan: 8, Workers: 1 + rng.Intn(2), PoolSize: 2, Strategy: "block", BlockTimeout: int64(time.Hour), DataChan: 1 + rng.Intn(6)}
	if rng.Bool(0.3) {
		// the input buffer grows (rows migrate to a larger channel) while several producers emit
		perf = &PerfSpec{ResultChan: 8, Workers: 1 + rng.Intn(2), PoolSize: 2, Strategy: "expand", DataChan: 1 + rng.Intn(3), Growth: []float64{1.5, 2}[rng.Intn(2)], MinInc: 1 + rng.Intn(2), Threshold: []float64{0.8, 1.0}[rng.Intn(2)], MaxBuffer: 4*n + 16}
	}
	c.Insts = []InstSpec{
		{SQL: sql, Perf: perf, Sinks: []SinkSpec{{Mode: "sync"}}, MaxPartitions: maxParts},
		{SQL: sql, Perf: &PerfSpec{ResultChan: 64, Workers: 1, PoolSize: 2}, Sinks: []SinkSpec{{Mode: "sync"}}, MaxPartitions: maxParts},
	}
	// Emit path: one producer per owner would interleave partitions nondeterministically only across
	// partitions, which the per-partition model tolerates
	c.Clients = append(c.Clients, opsEmit...)
	c.Clients = append(c.Clients, opsSync...)
	if rng.Bool(0.12) {
		// Stop while rows flow: whatever is still delivered must be what the definition gives over
		// the rows processed before it (a prefix of each producer's rows)
		d := int64(time.Duration(rng.Intn(3000)) * time.Microsecond)
		c.Clients = append(c.Clients, []Op{{K: "sleep", D: d}, {K: "stop", I: 0}, {K: "stop", I: 1}})
		c.X["stop_mid"] = true
	}
	c.Policy = genPolicy(rng, []time.Duration{time.Microsecond, time.Millisecond}, false)
	c.Settle = int64(time.Second)
	c.MaxSteps = 300000
	c.FaultFree = true
	c.Variant = whereKind
	if c.Variant == "" {
		c.Variant = "no-where"
	}
	return c
}

// ---- reference state machines (from the documented definitions) ----

type refState struct {
	hist    []any // lag history (values kept)
	latest  any
	hasLat  bool
	first   bool
	prev    any
	hasPrev bool
	sum     float64
	cnt     int
	mn, mx  float64
	hasNum  bool
	last    any // last result (WHEN gating)
	hasLast bool
	started bool // conditional accumulation: inside an accumulation phase
	w       any  // the current row's w (start / reset conditions), set by the caller before apply
}

// accGate implements acc_xxx(expr, start, reset): a row whose reset condition holds empties the
// accumulator and leaves the phase (the row itself is not counted); otherwise rows count from
// the first row whose start condition holds.
func (st *refState) accGate(cond string) (count bool) {
	w, ok := toFloat(st.w)
	if cond == "startreset" && ok && w < 1 {
		st.sum, st.cnt, st.mn, st.mx, st.hasNum, st.started = 0, 0, 0, 0, false, false
		return false
	}
	if cond == "start" || cond == "startreset" {
		if !(ok && w >= 3) && !st.started {
			return false
		}
		st.started = true
	}
	return true
}

func refEqual(a, b any) bool {
	fa, oka := toFloat(a)
	fb, okb := toFloat(b)
	if oka && okb {
		return fa == fb
	}
	return deepEqual(a, b)
}

func isIgn(p *bool) bool { return p != nil && *p }

func (st *refState) lagApply(v any, off int, def any, hasDef, ignoreNull bool) any {
	if off <= 0 {
		off = 1
	}
	var res any
	if len(st.hist) >= off {
		res = st.hist[len(st.hist)-off]
	} else if hasDef {
		res = def
	}
	if !(ignoreNull && v == nil) {
		st.hist = append(st.hist, v)
	}
	return res
}

func (st *refState) acc(v any) {
	if f, ok := toFloat(v); ok {
		st.cnt++
		st.sum += f
		if !st.hasNum || f < st.mn {
			st.mn = f
		}
		if !st.hasNum || f > st.mx {
			st.mx = f
		}
		st.hasNum = true
	}
}

// apply returns the function's value for the row's v (nil when NULL or missing).
func (a afSpec) apply(st *refState, v any) any {
	switch a.Fn {
	case "lag":
		ign := true
		if a.Ign != nil {
			ign = *a.Ign
		}
		var def any
		if a.Def != nil {
			def = *a.Def
		}
		return st.lagApply(v, a.Off, def, a.Def != nil, ign)
	case "latest":
		if v != nil {
			st.latest, st.hasLat = v, true
		}
		if st.hasLat {
			return st.latest
		}
		return nil
	case "had_changed":
		if !st.first {
			st.first = true
			st.prev = v
			return true
		}
		if isIgn(a.Ign) && v == nil {
			return false
		}
		ch := !refEqual(st.prev, v)
		st.prev = v
		return ch
	case "changed_col":
		if isIgn(a.Ign) && v == nil {
			return nil
		}
		var res any
		if !st.hasPrev || !refEqual(st.prev, v) {
			res = v
		}
		st.prev, st.hasPrev = v, true
		return res
	case "acc_sum":
		if st.accGate(a.Cond) {
			st.acc(v)
		}
		return st.sum
	case "acc_count":
		if st.accGate(a.Cond) {
			st.acc(v)
		}
		return st.cnt
	case "acc_avg":
		if st.accGate(a.Cond) {
			st.acc(v)
		}
		if st.cnt == 0 {
			return nil
		}
		return st.sum / float64(st.cnt)
	case "acc_min":
		if st.accGate(a.Cond) {
			st.acc(v)
		}
		if !st.hasNum {
			return nil
		}
		return st.mn
	case "acc_max":
		if st.accGate(a.Cond) {
			st.acc(v)
		}
		if !st.hasNum {
			return nil
		}
		return st.mx
	case "diff": // v - lag(v)
		l := st.lagApply(v, 1, nil, false, true)
		fv, ok1 := toFloat(v)
		fl, ok2 := toFloat(l)
		if ok1 && ok2 {
			return fv - fl
		}
		return nil
	case "lagsum": // lag(v) - acc_sum(v)
		l := st.lagApply(v, 1, nil, false, true)
		st.acc(v)
		if fl, ok := toFloat(l); ok && l != nil {
			return fl - st.sum
		}
		return nil
	case "cnt0": // acc_count(v) + 0
		st.acc(v)
		return st.cnt
	case "coal": // coalesce(lag(v), -1)
		if l := st.lagApply(v, 1, nil, false, true); l != nil {
			return l
		}
		return -1
	case "range": // acc_max(v) - acc_min(v)
		st.acc(v)
		if !st.hasNum {
			return nil
		}
		return st.mx - st.mn
	}
	return nil
}

func whenHolds(kind string, v any) bool {
	f, ok := toFloat(v)
	switch kind {
	case "gt2":
		return ok && f > 2
	case "ge0":
		return ok && f >= 0
	}
	return true
}

func loadAfSpecs(c *Case) []afSpec {
	var out []afSpec
	for _, x := range c.X["specs"].([]any) {
		m := x.(map[string]any)
		a := afSpec{Alias: m["alias"].(string), Fn: m["fn"].(string)}
		if n, ok := toInt64(m["off"]); ok {
			a.Off = int(n)
		}
		a.Part, _ = m["part"].(bool)
		a.When, _ = m["when"].(string)
		a.Cond, _ = m["cond"].(string)
		a.PCol, _ = m["pcol"].(string)
		if d, ok := toInt64(m["def"]); ok {
			if _, has := m["def"]; has {
				di := int(d)
				a.Def = &di
			}
		}
		if b, ok := m["ign"].(bool); ok {
			a.Ign = &b
		}
		out = append(out, a)
	}
	return out
}

func (c14) Run(e *Env) {
	if e.C.Variant == "shared" {
		runC14Shared(e)
		return
	}
	if err := e.Setup(); err != nil {
		e.R.Infra = "setup: " + err.Error()
		return
	}
	specs := loadAfSpecs(e.C)
	whereKind := e.C.xStr("where")
	part := e.C.xBool("part")
	e.StartClients()
	if err := e.RunClients(); err != nil {
		if err == simrt.ErrMaxSteps {
			e.R.Discard = "step budget exhausted in client phase"
		} else {
			e.Violate("C14/producer-stuck", "", "clients did not finish: %v; parked=%v", err, e.Sim.ParkedSites())
		}
		return
	}
	if err := e.Settle(time.Duration(e.C.Settle)); err != nil {
		e.R.Discard = "settle: " + err.Error()
		return
	}
	var st map[string]int64
	if err := e.Do("stats", func() { st = e.Insts[0].S.GetStats() }); err != nil || st["input_dropped_count"] > 0 || st["data_chan_len"] > 0 {
		e.R.Discard = "emit path not quiescent or dropped"
		return
	}
	// observed outputs per path
	emitOut := map[string]map[string]any{}
	var emitOrder []string
	// Stop variant: what the Emit path still delivers once Stop has been invoked is not judged.
	// Stop discards the rows that are still queued, nothing says which ones (with a growing input
	// buffer and several producers a later row can be taken while earlier ones are dropped), and a
	// row can be evaluated without being delivered — "the earlier rows of the partition" is not
	// observable from outside any more. The EmitSync path stays fully judged: its calls are
	// sequential per producer and each one reports whether it was processed.
	afterStop := map[string]bool{}
	for _, d := range e.Insts[0].Deliveries {
		for _, r := range d.Rows {
			emitOut[rowID(r)] = r
			emitOrder = append(emitOrder, rowID(r))
			if si := e.Insts[0].StopInv; si > 0 && d.Start >= si {
				afterStop[rowID(r)] = true
			}
		}
	}
	syncOut := map[string]map[string]any{}
	syncHas := map[string]bool{}
	for _, rec := range e.Ops {
		if rec.Op.K == "emitsync" {
			if rec.Err != "" && !e.C.xBool("stop_mid") {
				e.Violate("C14/emitsync-error", "", "EmitSync(%s): %s", rec.Op.Tag, rec.Err)
			}
			syncHas[rec.Op.Tag] = rec.Out != nil
			syncOut[rec.Op.Tag] = rec.Out
		}
	}
	// per-partition arrival order. EmitSync path: program order of the owning client. Emit path:
	// the order in which the single processor delivered (sync sink) for produced rows; rows that
	// produce no output are ordered by the owning client's program order (one client owns a
	// partition, and one FIFO channel preserves its order).
	partOf := func(row map[string]any) string {
		if !part {
			return "*"
		}
		if e.C.xStr("pcol") == "o.p" {
			o, _ := row["o"].(map[string]any)
			return canon(o["p"])
		}
		if e.C.xStr("pcol") == "p, q" {
			return canon([]any{row["p"], row["q"]})
		}
		return canon(row["p"])
	}
	stopMid := e.C.xBool("stop_mid")
	nEmitClients := len(e.C.Clients) / 2 // (a trailing stop client does not change the integer half)
	if stopMid {
		nEmitClients = (len(e.C.Clients) - 1) / 2
		e.Probe("stop_while_rows_flow")
	}
	ownerOf := map[string]int{}
	produced := map[string]bool{} // path/id -> result seen, for rows expected to produce one (stop variant)
	perPartRows := map[string][]Row{}
	var partOrder []string
	for ci := 0; ci < nEmitClients; ci++ {
		for _, op := range e.C.Clients[ci] {
			if op.K == "emit" {
				p := partOf(op.Row)
				if _, ok := perPartRows[p]; !ok {
					partOrder = append(partOrder, p)
					ownerOf[p] = ci
				}
				perPartRows[p] = append(perPartRows[p], op.Row)
			}
		}
	}
	// the EmitSync clients carry the same rows as the Emit clients (generator); a case reshaped by
	// the minimiser may not — then only the Emit path is judged
	syncSym := true
	for ci := 0; ci < nEmitClients && nEmitClients+ci < len(e.C.Clients); ci++ {
		var a, b []string
		for _, op := range e.C.Clients[ci] {
			if op.K == "emit" {
				a = append(a, rowID(op.Row))
			}
		}
		for _, op := range e.C.Clients[nEmitClients+ci] {
			if op.K == "emitsync" {
				b = append(b, rowID(op.Row))
			}
		}
		if fmt.Sprint(a) != fmt.Sprint(b) {
			syncSym = false
		}
	}
	if !part && nEmitClients > 1 {
		e.R.Infra = "generator bug: global partition with several clients"
		return
	}
	for _, p := range partOrder {
		states := make([]*refState, len(specs))
		for i := range states {
			states[i] = &refState{}
		}
		whereSt := &refState{}
		ccPrev := map[string]any{}
		for _, row := range perPartRows[p] {
			ccChanged := map[string]bool{}
			id := rowID(row)
			v := row["v"]
			counts := true // does the row count for the analytic state?
			pass := true   // is a result produced?
			switch whereKind {
			case "plain_gt1":
				f, ok := toFloat(v)
				pass = ok && f > 1
				counts = pass
			case "plain_w":
				f, ok := toFloat(row["w"])
				pass = ok && f >= 0
				counts = pass
			case "analytic_hc":
				t := true
				hc := afSpec{Fn: "had_changed", Ign: &t}.apply(whereSt, v)
				pass = hc == true
			}
			exp := map[string]any{}
			if counts {
				for i, a := range specs {
					var out any
					if a.When != "" && !whenHolds(a.When, v) {
						if states[i].hasLast {
							out = states[i].last
						}
					} else {
						states[i].w = row["w"]
						out = a.apply(states[i], v)
						states[i].last, states[i].hasLast = out, true
					}
					exp[a.Alias] = out
				}
			}
			if counts && e.C.xBool("cc") {
				ign := e.C.xBool("cc_ign")
				for _, col := range []string{"v", "w"} {
					val := row[col]
					if ign && val == nil {
						continue
					}
					prev, had := ccPrev[col]
					if !had || !refEqual(prev, val) {
						exp["c_"+col] = val
						ccChanged[col] = true
					}
					ccPrev[col] = val
				}
			}
			for path, got := range map[string]map[string]any{"emit": emitOut[id], "emitsync": syncOut[id]} {
				e.Oblig(1)
				has := got != nil
				if path == "emitsync" {
					has = syncHas[id]
				}
				if path == "emitsync" && !syncSym {
					continue
				}
				if stopMid && path == "emit" && (afterStop[id] || !has) {
					continue // delivered while Stop ran, or not at all: not judged (see above)
				}
				if stopMid && pass {
					produced[path+"/"+id] = has
					if !has {
						continue // not processed any more because of Stop
					}
				}
				if has != pass {
					e.Violate("C14/row-presence", path, "partition %s row %s (v=%s): result produced=%v, expected=%v (WHERE kind %q)", p, id, canon(v), has, pass, whereKind)
					continue
				}
				if !pass {
					continue
				}
				for _, a := range specs {
					want := exp[a.Alias]
					gv, present := got[a.Alias]
					if a.Fn == "changed_col" && want == nil {
						if present && gv != nil {
							e.Violate("C14/value", path+"/"+a.Fn, "partition %s row %s: %s = %s, expected no change (column omitted)", p, id, a.sql(), canon(gv))
						}
						continue
					}
					if !present && want != nil {
						e.Violate("C14/value", path+"/"+a.Fn, "partition %s row %s: column %s missing, expected %s (%s)", p, id, a.Alias, canon(want), a.sql())
						continue
					}
					if !refEqual(gv, want) {
						e.Violate("C14/value", path+"/"+a.Fn, "partition %s row %s (v=%s): %s = %s, the definition over the partition's earlier rows gives %s", p, id, canon(v), a.sql(), canon(gv), canon(want))
					}
				}
				if e.C.xBool("cc") {
					for _, col := range []string{"v", "w"} {
						gv, present := got["c_"+col]
						if ccChanged[col] != present {
							e.Violate("C14/value", path+"/changed_cols", "partition %s row %s (%s=%s): column c_%s present=%v, expected changed=%v", p, id, col, canon(row[col]), col, present, ccChanged[col])
						} else if present && !refEqual(gv, exp["c_"+col]) {
							e.Violate("C14/value", path+"/changed_cols", "partition %s row %s: c_%s = %s, expected %s", p, id, col, canon(gv), canon(exp["c_"+col]))
						}
					}
				}
			}
			_ = ccChanged
			// both paths must agree with each other as well
			if a, b := emitOut[id], syncOut[id]; a != nil && b != nil && !afterStop[id] && syncSym && !deepEqual(a, b) {
				e.Violate("C14/sync-async-disagree", "", "row %s: Emit path %s, EmitSync path %s", id, canon(a), canon(b))
			}
		}
	}
	if stopMid {
		// the rows of one producer that still produced a result are a prefix of its rows
		for ci := 0; ci < nEmitClients; ci++ {
			for _, path := range []string{"emit", "emitsync"} {
				if path == "emitsync" && !syncSym {
					continue
				}
				gap := ""
				for _, op := range e.C.Clients[ci] {
					if op.K != "emit" {
						continue
					}
					has, expected := produced[path+"/"+rowID(op.Row)]
					if !expected {
						continue
					}
					if !has && gap == "" {
						gap = rowID(op.Row)
					}
					if has && gap != "" {
						e.Violate("C14/row-after-gap", path, "producer %d: row %s produced a result although its earlier row %s did not (Stop in between): the rows that count are no prefix of what was emitted", ci, rowID(op.Row), gap)
						break
					}
				}
			}
		}
	}
	_ = ownerOf
	if len(partOrder) > 1 {
		e.Probe("multi_partition")
	}
	if nEmitClients > 1 {
		e.Probe("concurrent_emitsync_clients")
	}
	if e.Insts[0].Spec.MaxPartitions == len(partOrder) && len(partOrder) > 0 {
		e.Probe("at_partition_cap")
	}
	e.R.Summary = map[string]any{"sql": e.C.Insts[0].SQL, "partitions": len(partOrder), "clients": nEmitClients, "rows": len(emitOrder)}
}
