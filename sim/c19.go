package sim

import (
	"fmt"
	"strings"
	"time"

	"verif.local/simrt"
)

// C19 — every emitted row is either processed exactly once or counted as dropped
// (DESIGN.md §3 C19).

type c19 struct{}

func init() { register(c19{}) }

func (c19) ID() string { return "C19" }

func (c19) Gen(rng *simrt.Rand, seed uint64, tier string) *Case {
	c := &Case{X: map[string]any{}}
	P := 1 + rng.Intn(4)
	nmax := 12
	if tier == "thorough" {
		nmax = 30
	}
	n := 3 + rng.Intn(nmax)
	strat := []string{"drop", "block", "blockto", "expand", "expand", "expand"}[rng.Intn(6)]
	perf := &PerfSpec{DataChan: []int{1, 1, 2, 3, 8}[rng.Intn(5)], ResultChan: 1 + rng.Intn(4), Workers: 1 + rng.Intn(2), PoolSize: 1 + rng.Intn(3)}
	switch strat {
	case "drop":
		perf.Strategy = "drop"
	case "block":
		perf.Strategy = "block"
		perf.BlockTimeout = []int64{0, 0, -1, int64(-time.Second)}[rng.Intn(4)] // <= 0: no timeout
	case "blockto":
		perf.Strategy = "block"
		perf.BlockTimeout = int64([]time.Duration{50 * time.Microsecond, time.Millisecond, 30 * time.Millisecond, time.Second}[rng.Intn(4)])
	case "expand":
		perf.Strategy = "expand"
		perf.Growth = []float64{1.1, 1.5, 2, 3}[rng.Intn(4)]
		perf.MinInc = []int{1, 1, 2, 5}[rng.Intn(4)]
		perf.Threshold = []float64{0.5, 0.8, 0.9, 1.0}[rng.Intn(4)]
		switch rng.Intn(4) {
		case 0:
			perf.MaxBuffer = perf.DataChan // ceiling = size: no growth possible
		case 1:
			perf.MaxBuffer = perf.DataChan + 1
		default:
			perf.MaxBuffer = perf.DataChan + 1 + rng.Intn(12)
		}
	}
	c.X["strategy"] = strat
	c.X["max_buffer"] = perf.MaxBuffer
	sink := SinkSpec{Mode: "sync"}
	if rng.Bool(0.6) {
		sink.Fault = "slow"
		sink.Every = []int{1, 1, 2, 5}[rng.Intn(4)]
		sink.D = int64([]time.Duration{50 * time.Microsecond, 200 * time.Microsecond, time.Millisecond, 20 * time.Millisecond}[rng.Intn(4)])
	}
	c.Insts = []InstSpec{{SQL: "SELECT id FROM stream", Perf: perf, Sinks: []SinkSpec{sink}}}
	pauseP := []float64{0, 0.05, 0.2, 0.5}[rng.Intn(4)]
	for p := 0; p < P; p++ {
		var ops []Op
		for i := 0; i < n; i++ {
			if rng.Bool(pauseP) {
				ops = append(ops, Op{K: "sleep", D: int64([]time.Duration{10 * time.Microsecond, 100 * time.Microsecond, time.Millisecond, 50 * time.Millisecond}[rng.Intn(4)])})
			}
			id := fmt.Sprintf("%d:%03d", p, i)
			ops = append(ops, Op{K: "emit", Row: Row{"id": id}, Tag: id})
		}
		c.Clients = append(c.Clients, ops)
	}
	if rng.Bool(0.5) {
		var ops []Op
		for i := 0; i < 2+rng.Intn(6); i++ {
			ops = append(ops, Op{K: "stats"})
			if rng.Bool(0.5) {
				ops = append(ops, Op{K: "sleep", D: int64(time.Duration(1+rng.Intn(500)) * time.Microsecond)})
			}
		}
		c.Clients = append(c.Clients, ops)
	}
	c.Policy = genPolicy(rng, []time.Duration{time.Microsecond, 100 * time.Microsecond, time.Millisecond, 100 * time.Millisecond, 5 * time.Second}, false)
	c.Settle = int64(3 * time.Second)
	c.Horizon = int64(10 * time.Minute)
	c.MaxSteps = 200000
	c.FaultFree = sink.Fault == "" && strat == "block"
	return c
}

func (c19) Run(e *Env) {
	if err := e.Setup(); err != nil {
		e.R.Infra = "setup: " + err.Error()
		return
	}
	in := e.Insts[0]
	strat := e.C.xStr("strategy")
	maxBuf := e.C.xInt("max_buffer", 0)
	e.StartClients()
	if err := e.RunClients(); err != nil {
		switch err {
		case simrt.ErrMaxSteps:
			e.R.Discard = "step budget exhausted in client phase"
		default:
			// producers must always get through: drop/expand/block+timeout bound their wait, and
			// plain block only waits for a live consumer
			e.Violate("C19/producer-stuck", strat, "clients did not finish: %v; parked=%v", err, e.Sim.ParkedSites())
		}
		return
	}
	processed := func() int {
		n := 0
		for _, d := range in.Deliveries {
			n += len(d.Rows)
		}
		return n
	}
	var st map[string]int64
	prev := -1
	for round := 0; round < 400; round++ { // until a whole settle period brings no progress
		if err := e.Settle(time.Duration(e.C.Settle)); err != nil {
			e.R.Discard = "settle: " + err.Error()
			return
		}
		if err := e.Do("stats", func() { st = in.S.GetStats() }); err != nil {
			e.R.Discard = "stats: " + err.Error()
			return
		}
		now := processed()
		if st["data_chan_len"] == 0 || now == prev {
			break
		}
		prev = now
	}
	emits := 0
	for _, ops := range e.C.Clients {
		for _, op := range ops {
			if op.K == "emit" {
				emits++
			}
		}
	}
	var order []string
	seen := map[string]int{}
	for _, d := range in.Deliveries {
		for _, r := range d.Rows {
			id, _ := r["id"].(string)
			seen[id]++
			order = append(order, id)
		}
	}
	dropped := int(st["input_dropped_count"])
	e.Oblig(emits)
	if len(order)+dropped != emits {
		e.Violate("C19/conservation", strat, "processed=%d + input_dropped_count=%d != emits=%d (data_chan_len=%d cap=%d)",
			len(order), dropped, emits, st["data_chan_len"], st["data_chan_cap"])
	}
	for id, n := range seen {
		if n > 1 {
			e.Violate("C19/duplicate", strat, "row %s processed %d times", id, n)
		}
	}
	if strat == "block" && dropped != 0 {
		e.Violate("C19/block-dropped", strat, "block strategy without timeout dropped %d rows", dropped)
	}
	if int(st["input_count"]) != emits {
		e.Violate("C19/input-count", strat, "input_count=%d, Emit calls=%d", st["input_count"], emits)
	}
	checkCap := func(s map[string]int64, where string) {
		if strat == "expand" && maxBuf > 0 && int(s["data_chan_cap"]) > maxBuf {
			e.Violate("C19/cap-exceeded", strat, "data_chan_cap=%d > MaxBufferSize=%d (%s)", s["data_chan_cap"], maxBuf, where)
		}
		if strat != "expand" && int(s["data_chan_cap"]) != in.Spec.Perf.DataChan && s["data_chan_cap"] != 0 {
			e.Violate("C19/cap-changed", strat, "data_chan_cap=%d but DataChannelSize=%d and strategy %s never grows", s["data_chan_cap"], in.Spec.Perf.DataChan, strat)
		}
	}
	checkCap(st, "final")
	for _, op := range e.Ops {
		if op.Stats != nil {
			checkCap(op.Stats, "snapshot")
			e.Oblig(1)
		}
	}
	last := map[string]string{}
	for _, id := range order {
		p := strings.SplitN(id, ":", 2)[0]
		if id < last[p] {
			e.Violate("C19/order", strat, "producer %s: row %s processed after %s", p, id, last[p])
		}
		if id > last[p] {
			last[p] = id
		}
	}
	if int(st["data_chan_cap"]) > in.Spec.Perf.DataChan {
		e.Probe("expanded")
	}
	if maxBuf > 0 && int(st["data_chan_cap"]) == maxBuf && maxBuf > in.Spec.Perf.DataChan {
		e.Probe("ceiling_reached")
	}
	if dropped > 0 {
		e.Probe("input_dropped")
	}
	e.R.Summary = map[string]any{"strategy": strat, "producers": len(e.C.Clients), "emits": emits, "processed": len(order), "dropped": dropped, "cap": st["data_chan_cap"]}
}
