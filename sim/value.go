package sim

import (
	"bytes"
	"encoding/json"
	"fmt"
	"math"
	"reflect"
	"sort"
	"strings"
)

// Typed JSON encoding of row values. Go ints and float64s must survive a round trip through a
// replay file unchanged (1 vs 1.0 matters to the engine), so floats are written as {"$f": x},
// int64 as {"$i64": n}; plain JSON numbers decode to Go int.

func encVal(v any) any {
	switch x := v.(type) {
	case nil:
		return nil
	case float64:
		if math.IsNaN(x) {
			return map[string]any{"$f": "NaN"}
		}
		if math.IsInf(x, 1) {
			return map[string]any{"$f": "+Inf"}
		}
		if math.IsInf(x, -1) {
			return map[string]any{"$f": "-Inf"}
		}
		return map[string]any{"$f": x}
	case float32:
		return map[string]any{"$f32": float64(x)}
	case int:
		return x
	case int64:
		return map[string]any{"$i64": fmt.Sprint(x)}
	case int32:
		return map[string]any{"$i32": int(x)}
	case uint64:
		return map[string]any{"$u64": fmt.Sprint(x)}
	case map[string]any:
		m := make(map[string]any, len(x))
		for k, e := range x {
			m[k] = encVal(e)
		}
		return m
	case []any:
		l := make([]any, len(x))
		for i, e := range x {
			l[i] = encVal(e)
		}
		return l
	case []map[string]any:
		l := make([]any, len(x))
		for i, e := range x {
			l[i] = encVal(e)
		}
		return l
	default:
		return v
	}
}

func decVal(v any) any {
	switch x := v.(type) {
	case json.Number:
		if n, err := x.Int64(); err == nil {
			return int(n)
		}
		f, _ := x.Float64()
		return f
	case map[string]any:
		if len(x) == 1 {
			for k, e := range x {
				switch k {
				case "$f":
					switch n := e.(type) {
					case json.Number:
						f, _ := n.Float64()
						return f
					case string:
						switch n {
						case "NaN":
							return math.NaN()
						case "+Inf":
							return math.Inf(1)
						case "-Inf":
							return math.Inf(-1)
						}
					case float64:
						return n
					}
				case "$f32":
					f, _ := e.(json.Number).Float64()
					return float32(f)
				case "$i64":
					var n int64
					fmt.Sscan(e.(string), &n)
					return n
				case "$i32":
					n, _ := e.(json.Number).Int64()
					return int32(n)
				case "$u64":
					var n uint64
					fmt.Sscan(e.(string), &n)
					return n
				}
			}
		}
		m := make(map[string]any, len(x))
		for k, e := range x {
			m[k] = decVal(e)
		}
		return m
	case []any:
		l := make([]any, len(x))
		for i, e := range x {
			l[i] = decVal(e)
		}
		return l
	default:
		return v
	}
}

// Row is a row value with the typed encoding above.
type Row map[string]any

func (r Row) MarshalJSON() ([]byte, error) { return json.Marshal(encVal(map[string]any(r))) }
func (r *Row) UnmarshalJSON(b []byte) error {
	d := json.NewDecoder(bytes.NewReader(b))
	d.UseNumber()
	var v any
	if err := d.Decode(&v); err != nil {
		return err
	}
	if v == nil {
		*r = nil
		return nil
	}
	m, ok := decVal(v).(map[string]any)
	if !ok {
		return fmt.Errorf("row is not an object")
	}
	*r = m
	return nil
}

// deepCopy copies maps and slices recursively (values of other kinds are immutable here).
func deepCopy(v any) any {
	switch x := v.(type) {
	case map[string]any:
		if x == nil {
			return x
		}
		m := make(map[string]any, len(x))
		for k, e := range x {
			m[k] = deepCopy(e)
		}
		return m
	case Row:
		return Row(deepCopy(map[string]any(x)).(map[string]any))
	case []any:
		if x == nil {
			return x
		}
		l := make([]any, len(x))
		for i, e := range x {
			l[i] = deepCopy(e)
		}
		return l
	case []map[string]any:
		l := make([]map[string]any, len(x))
		for i, e := range x {
			l[i] = deepCopy(e).(map[string]any)
		}
		return l
	case []string:
		return append([]string(nil), x...)
	case []float64:
		return append([]float64(nil), x...)
	case []int:
		return append([]int(nil), x...)
	default:
		return v
	}
}

func copyRow(m map[string]any) map[string]any {
	if m == nil {
		return nil
	}
	return deepCopy(m).(map[string]any)
}
func copyRows(rs []map[string]any) []map[string]any {
	out := make([]map[string]any, len(rs))
	for i, r := range rs {
		out[i] = copyRow(r)
	}
	return out
}

// deepEqual with NaN == NaN and exact dynamic types.
func deepEqual(a, b any) bool {
	switch x := a.(type) {
	case map[string]any:
		y, ok := b.(map[string]any)
		if !ok || len(x) != len(y) || (x == nil) != (y == nil) {
			return false
		}
		for k, e := range x {
			f, ok := y[k]
			if !ok || !deepEqual(e, f) {
				return false
			}
		}
		return true
	case []any:
		y, ok := b.([]any)
		if !ok || len(x) != len(y) {
			return false
		}
		for i := range x {
			if !deepEqual(x[i], y[i]) {
				return false
			}
		}
		return true
	case float64:
		y, ok := b.(float64)
		return ok && (x == y || (math.IsNaN(x) && math.IsNaN(y)))
	default:
		return reflect.DeepEqual(a, b)
	}
}

// canon renders a value deterministically (sorted map keys, typed numbers) for logs, digests
// and witnesses.
func canon(v any) string {
	var b strings.Builder
	canonTo(&b, v)
	return b.String()
}

func canonTo(b *strings.Builder, v any) {
	switch x := v.(type) {
	case nil:
		b.WriteString("null")
	case map[string]any:
		keys := make([]string, 0, len(x))
		for k := range x {
			keys = append(keys, k)
		}
		sort.Strings(keys)
		b.WriteByte('{')
		for i, k := range keys {
			if i > 0 {
				b.WriteByte(',')
			}
			fmt.Fprintf(b, "%q:", k)
			canonTo(b, x[k])
		}
		b.WriteByte('}')
	case Row:
		canonTo(b, map[string]any(x))
	case []any:
		b.WriteByte('[')
		for i, e := range x {
			if i > 0 {
				b.WriteByte(',')
			}
			canonTo(b, e)
		}
		b.WriteByte(']')
	case []map[string]any:
		b.WriteByte('[')
		for i, e := range x {
			if i > 0 {
				b.WriteByte(',')
			}
			canonTo(b, e)
		}
		b.WriteByte(']')
	case string:
		fmt.Fprintf(b, "%q", x)
	case float64:
		fmt.Fprintf(b, "%vf", x)
	case int:
		fmt.Fprintf(b, "%d", x)
	case int64:
		fmt.Fprintf(b, "%dL", x)
	case bool:
		fmt.Fprintf(b, "%v", x)
	default:
		rv := reflect.ValueOf(v)
		switch rv.Kind() {
		case reflect.Slice, reflect.Array:
			b.WriteByte('[')
			for i := 0; i < rv.Len(); i++ {
				if i > 0 {
					b.WriteByte(',')
				}
				canonTo(b, rv.Index(i).Interface())
			}
			b.WriteByte(']')
		case reflect.Map:
			type kv struct {
				k string
				v any
			}
			var kvs []kv
			it := rv.MapRange()
			for it.Next() {
				kvs = append(kvs, kv{fmt.Sprint(it.Key().Interface()), it.Value().Interface()})
			}
			sort.Slice(kvs, func(i, j int) bool { return kvs[i].k < kvs[j].k })
			b.WriteByte('{')
			for i, e := range kvs {
				if i > 0 {
					b.WriteByte(',')
				}
				fmt.Fprintf(b, "%q:", e.k)
				canonTo(b, e.v)
			}
			b.WriteByte('}')
		default:
			fmt.Fprintf(b, "%T(%v)", v, v)
		}
	}
}

// toFloat converts any numeric value to float64.
func toFloat(v any) (float64, bool) {
	switch x := v.(type) {
	case float64:
		return x, true
	case float32:
		return float64(x), true
	case int:
		return float64(x), true
	case int64:
		return float64(x), true
	case int32:
		return float64(x), true
	case uint64:
		return float64(x), true
	case uint32:
		return float64(x), true
	case uint:
		return float64(x), true
	case int16:
		return float64(x), true
	case int8:
		return float64(x), true
	case uint16:
		return float64(x), true
	case uint8:
		return float64(x), true
	}
	return 0, false
}

func toInt64(v any) (int64, bool) {
	switch x := v.(type) {
	case int:
		return int64(x), true
	case int64:
		return x, true
	case int32:
		return int64(x), true
	case float64:
		if x == math.Trunc(x) {
			return int64(x), true
		}
	case uint64:
		return int64(x), true
	}
	return 0, false
}

// Vals is a list of typed values (e.g. a composite key).
type Vals []any

func (v Vals) MarshalJSON() ([]byte, error) { return json.Marshal(encVal([]any(v))) }
func (v *Vals) UnmarshalJSON(b []byte) error {
	d := json.NewDecoder(bytes.NewReader(b))
	d.UseNumber()
	var x any
	if err := d.Decode(&x); err != nil {
		return err
	}
	if x == nil {
		*v = nil
		return nil
	}
	l, ok := decVal(x).([]any)
	if !ok {
		return fmt.Errorf("not a list")
	}
	*v = l
	return nil
}
