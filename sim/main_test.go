package sim

import (
	"bufio"
	"encoding/json"
	"flag"
	"fmt"
	"os"
	"testing"

	"github.com/rulego/streamsql/window"
	"verif.local/simrt"
)

var (
	fProp    = flag.String("sim.prop", "", "property id")
	fSeed    = flag.Uint64("sim.seed", 1, "first seed")
	fN       = flag.Int("sim.n", 1, "number of consecutive seeds to run in this process")
	fTier    = flag.String("sim.tier", "quick", "quick | thorough")
	fReplay  = flag.String("sim.replay", "", "replay file (case + decisions)")
	fLenient = flag.Bool("sim.lenient", false, "lenient replay (default decisions where the recorded one cannot be honoured)")
	fNoDecs  = flag.Bool("sim.nodecs", false, "replay: ignore the recorded decisions and schedule from the case's sched_seed")
	fFull    = flag.Bool("sim.full", false, "include case, decisions and log in the result")
	fGenOnly = flag.Bool("sim.gen", false, "only generate and print the case")
	fSolo    = flag.Bool("sim.solo", false, "marker: this process is a solo re-execution spawned by a property's PostRun")
)

// ReplayFile is what a violation is reported with.
type ReplayFile struct {
	Property  string           `json:"property"`
	Class     string           `json:"class"`
	Site      string           `json:"site,omitempty"`
	Msg       string           `json:"msg"`
	Digest    string           `json:"digest"`
	Case      *Case            `json:"case"`
	Decisions []simrt.Decision `json:"decisions"`
	Note      string           `json:"note,omitempty"`
}

func genCase(prop string, seed uint64, tier string) *Case {
	p := registry[prop]
	if p == nil {
		return nil
	}
	rng := simrt.NewRand(seed ^ 0xC0FFEE)
	c := p.Gen(rng, seed, tier)
	c.Prop, c.Seed, c.Tier = prop, seed, tier
	if c.SchedSeed == 0 {
		c.SchedSeed = rng.Uint64() | 1
	}
	if os.Getenv("VERIF_DENSE") != "" {
		// statement-level yield points dilute a uniform walk: dense builds use coarse policies
		if c.Policy.Kind == "uniform" {
			c.Policy.Kind, c.Policy.StickyP = "sticky", 0.97
		} else if c.Policy.Kind == "sticky" && c.Policy.StickyP < 0.9 {
			c.Policy.StickyP = 0.95
		}
		c.MaxSteps *= 4
		c.X["dense"] = true
	}
	return c
}

func emit(w *bufio.Writer, v any) {
	b, err := json.Marshal(v)
	if err != nil {
		b, _ = json.Marshal(map[string]string{"infra": "marshal: " + err.Error()})
	}
	w.Write(b)
	w.WriteByte('\n')
	w.Flush()
}

func strip(r *Result, c *Case) {
	if *fFull || len(r.Violations) > 0 {
		r.Case = c
		return
	}
	r.Decisions = nil
	r.Log = nil
	r.Switches = nil
}

// postRun gives a property the chance to finish its verdict outside the bubble (e.g. by running
// an instance alone in a fresh process).
func postRun(c *Case, r *Result) {
	if *fSolo {
		return
	}
	if p, ok := registry[c.Prop].(interface{ PostRun(*Case, *Result) }); ok {
		p.PostRun(c, r)
	}
}

func TestSim(t *testing.T) {
	if os.Getenv("VERIF_WINDEBUG") != "" {
		window.EnableDebug = true
	}
	if *fProp == "" && *fReplay == "" {
		t.Skip("no -sim.prop")
	}
	w := bufio.NewWriter(os.Stdout)
	hardExit = func(c *Case, r *Result) {
		r.Digest = "deadlock"
		strip(r, c)
		emit(w, r)
		os.Exit(0)
	}
	if *fReplay != "" {
		b, err := os.ReadFile(*fReplay)
		if err != nil {
			emit(w, map[string]string{"infra": err.Error()})
			return
		}
		var rf ReplayFile
		if err := json.Unmarshal(b, &rf); err != nil {
			emit(w, map[string]string{"infra": "replay file: " + err.Error()})
			return
		}
		decs := rf.Decisions
		if *fNoDecs {
			decs = nil
		}
		emit(w, map[string]any{"start": rf.Case.Seed})
		r := RunCase(t, rf.Case, decs, !*fLenient && decs != nil, *fFull)
		postRun(rf.Case, r)
		strip(r, rf.Case)
		emit(w, r)
		return
	}
	for i := 0; i < *fN; i++ {
		seed := *fSeed + uint64(i)
		c := genCase(*fProp, seed, *fTier)
		if c == nil {
			emit(w, map[string]string{"infra": "unknown property " + *fProp})
			return
		}
		if *fGenOnly {
			emit(w, c)
			continue
		}
		emit(w, map[string]any{"start": seed})
		r := RunCase(t, c, nil, false, *fFull)
		postRun(c.normalise(), r)
		strip(r, c.normalise())
		emit(w, r)
	}
	fmt.Fprint(os.Stderr, "")
}
