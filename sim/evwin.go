package sim

import (
	"fmt"
	"math"
	"strings"
	"time"

	"verif.local/simrt"
)

// Event-time window workloads and the watermark ledger shared by C01 (tumbling), C08 (sliding),
// C02 (watermark discipline) and C10 (session). DESIGN.md §3 conventions.

// fake epoch of the synctest bubble: 2000-01-01T00:00:00Z
const fakeEpochMS = int64(946684800000)

type evSpec struct {
	Kind    string // tumbling | sliding | session
	Size    int64  // ns (session: timeout)
	Slide   int64  // ns
	OOO     int64  // ns
	AL      int64  // ns
	Idle    int64  // ns
	UnitNS  int64  // ns per timestamp unit
	KeyCols []string
	Garbage bool
}

func (s *evSpec) store(c *Case) {
	c.X["kind"], c.X["size"], c.X["slide"], c.X["ooo"], c.X["al"], c.X["idle"], c.X["unit"], c.X["ncols"], c.X["garbage"] =
		s.Kind, s.Size, s.Slide, s.OOO, s.AL, s.Idle, s.UnitNS, len(s.KeyCols), s.Garbage
}

func loadEvSpec(c *Case) *evSpec {
	x64 := func(k string) int64 {
		n, _ := toInt64(c.X[k])
		return n
	}
	return &evSpec{Kind: c.xStr("kind"), Size: x64("size"), Slide: x64("slide"), OOO: x64("ooo"), AL: x64("al"), Idle: x64("idle"),
		UnitNS: x64("unit"), KeyCols: []string{"k1", "k2"}[:c.xInt("ncols", 0)], Garbage: c.xBool("garbage")}
}

func durSQL(ns int64) string {
	switch {
	case ns%int64(time.Hour) == 0 && ns > 0:
		return fmt.Sprintf("%dh", ns/int64(time.Hour))
	case ns%int64(time.Minute) == 0 && ns > 0:
		return fmt.Sprintf("%dm", ns/int64(time.Minute))
	case ns%int64(time.Second) == 0:
		return fmt.Sprintf("%ds", ns/int64(time.Second))
	default:
		return fmt.Sprintf("%dms", ns/int64(time.Millisecond))
	}
}

func (s *evSpec) sql() string {
	sel, grp := sqlKeyList(s.KeyCols)
	var win string
	switch s.Kind {
	case "tumbling":
		win = fmt.Sprintf("TumblingWindow('%s')", durSQL(s.Size))
	case "sliding":
		win = fmt.Sprintf("SlidingWindow('%s', '%s')", durSQL(s.Size), durSQL(s.Slide))
	case "session":
		win = fmt.Sprintf("SessionWindow('%s')", durSQL(s.Size))
	}
	unit := "ms"
	if s.UnitNS == int64(time.Second) {
		unit = "ss"
	}
	with := fmt.Sprintf("TIMESTAMP='ts', TIMEUNIT='%s'", unit)
	if s.OOO > 0 {
		with += fmt.Sprintf(", MAXOUTOFORDERNESS='%s'", durSQL(s.OOO))
	}
	if s.AL > 0 {
		with += fmt.Sprintf(", ALLOWEDLATENESS='%s'", durSQL(s.AL))
	}
	if s.Idle > 0 {
		with += fmt.Sprintf(", IDLETIMEOUT='%s'", durSQL(s.Idle))
	}
	return fmt.Sprintf("SELECT %s%s FROM stream GROUP BY %s%s WITH (%s)", sel, aggSelect, grp, win, with)
}

type evGenOpts struct {
	Kinds     []string
	AllowAL   bool
	Garbage   bool
	Idle      bool
	LateRows  float64 // probability that a row is generated later than the tolerance
	MaxRows   int
	Adversary bool // adversarial key strings
	Burst     bool // some cases: hundreds of in-order rows while the trigger goroutine is held up by a blocked output buffer
	Stall     bool // some cases with ALLOWEDLATENESS: late and too-late rows arrive while the first delivery of their windows is blocked
}

// genEvCase builds an event-time window case: spec, rows (one producer), flush row, perf, sink.
func genEvCase(rng *simrt.Rand, tier string, o evGenOpts) *Case {
	c := &Case{X: map[string]any{}}
	sp := &evSpec{Kind: o.Kinds[rng.Intn(len(o.Kinds))], UnitNS: int64(time.Millisecond)}
	if rng.Bool(0.15) {
		sp.UnitNS = int64(time.Second)
	}
	u := sp.UnitNS
	sizesU := []int64{1, 2, 10, 100, 1000, 5000, 60000, 3600000}
	if u == int64(time.Second) {
		sizesU = []int64{1, 2, 5, 10, 60, 3600}
	}
	sizeU := sizesU[rng.Intn(len(sizesU))]
	sp.Size = sizeU * u
	if sp.Kind == "sliding" {
		// ratios: slide | size, slide ∤ size, slide = size, slide > size, size = k*slide (k<=6)
		var slideU int64
		switch rng.Intn(6) {
		case 0:
			slideU = sizeU
		case 1:
			slideU = sizeU * 2
		case 2:
			k := int64(2 + rng.Intn(5))
			if sizeU%k == 0 {
				slideU = sizeU / k
			} else {
				sizeU *= k
				slideU = sizeU / k
			}
		case 3:
			slideU = sizeU/2 + 1 // usually does not divide
		case 4:
			slideU = sizeU*2/3 + 1
		default:
			slideU = 1 + int64(rng.Intn(int(minI64(sizeU, 50))))
			if sizeU/slideU > 8 {
				slideU = sizeU / 8
			}
		}
		if slideU < 1 {
			slideU = 1
		}
		sp.Size, sp.Slide = sizeU*u, slideU*u
	}
	step := sizeU // granularity of gaps
	if sp.Kind == "sliding" {
		step = sp.Slide / u
	}
	switch rng.Intn(5) {
	case 0:
		sp.OOO = 0
	case 1:
		sp.OOO = maxI64(1, sizeU/3) * u
	case 2:
		sp.OOO = sizeU * u
	case 3:
		sp.OOO = (sizeU*2 + 1) * u
	default:
		sp.OOO = int64(1+rng.Intn(int(minI64(sizeU, 1000)))) * u
	}
	if o.AllowAL {
		switch rng.Intn(4) {
		case 0:
		case 1:
			sp.AL = maxI64(1, sizeU/2) * u
		case 2:
			sp.AL = sizeU * u
		default:
			sp.AL = sizeU * 3 * u
		}
	}
	// durations given to the engine must survive durSQL formatting (ms resolution is the minimum)
	if o.Idle && rng.Bool(0.3) {
		sp.Idle = int64([]time.Duration{300 * time.Millisecond, 2 * time.Second, time.Minute}[rng.Intn(3)])
	}
	sp.Garbage = o.Garbage && rng.Bool(0.6)
	ncols := rng.Intn(3)
	if sp.Kind == "session" && ncols == 0 {
		ncols = 1 // the flush row needs a session key of its own
	}
	sp.KeyCols = []string{"k1", "k2"}[:ncols]
	tuples := genKeyTuples(rng, ncols, o.Adversary && rng.Bool(0.5))
	n := 4 + rng.Intn(o.MaxRows-3)
	// burst: the watermark advances with (nearly) every row while the trigger goroutine sits in a
	// blocked hand-off to a slow sink (block strategy, output buffer of 1), so the watermark
	// channel (capacity 100 in the engine) overflows and advances have to be re-sent later
	burst := o.Burst && rng.Bool(0.08)
	if burst {
		n = 130 + rng.Intn(220)
	}
	// stall: one trigger round collects many windows / sessions and is held up handing them to a
	// slow sink through an output buffer of 1; while it is stuck the watermark moves on (some
	// cases: beyond the allowance) and late rows for the windows of that round arrive
	// (only with windows of at most a minute: the shape spans ~50 window sizes, and every generated
	// timestamp has to stay well inside the 24 h future guard of the run's fake clock)
	stall := o.Stall && !burst && sp.AL > 0 && sp.Size <= int64(time.Minute) && rng.Bool(0.25)
	if stall {
		n = 1 + rng.Intn(6)
	}
	// nominal timeline in units; base aligned near a window boundary of the fake epoch
	epochU := fakeEpochMS * int64(time.Millisecond) / u
	base := epochU - epochU%sizeU + int64(rng.Intn(3))*sizeU + []int64{0, 0, 1, sizeU / 2, sizeU - 1}[rng.Intn(5)]
	cur := base
	oooU := sp.OOO / u
	maxSpanU := int64(12*time.Hour) / u
	gaps := []int64{0, 0, 1, maxI64(1, step/4), maxI64(1, step/2), maxI64(1, step-1), step, step + 1, step * 3, step * 10}
	var ops []Op
	var maxTS int64 = math.MinInt64
	sleepP := []float64{0, 0.1, 0.4}[rng.Intn(3)]
	if burst {
		gaps = []int64{1, maxI64(1, step/4), maxI64(1, step/2), maxI64(1, step/2)}
		sleepP = 0
	}
	sleeps := []time.Duration{50 * time.Microsecond, 5 * time.Millisecond, 250 * time.Millisecond}
	if sp.Idle > 0 {
		sleeps = append(sleeps, time.Duration(sp.Idle)+time.Duration(sp.Idle)/2)
	}
	for i := 0; i < n; i++ {
		cur += gaps[rng.Intn(len(gaps))]
		if cur-base > maxSpanU/2 {
			cur = base + maxSpanU/2
		}
		ts := cur
		switch r := rng.Float64(); {
		case r < 0.45:
		case r < 0.70:
			ts = cur - int64(rng.Intn(int(minI64(oooU, 1<<30))+1)) // within tolerance
		case r < 0.78:
			ts = cur - oooU // exactly at the tolerance
		case r < 0.78+o.LateRows/2:
			ts = cur - oooU - 1 // just late
		case r < 0.78+o.LateRows:
			ts = cur - oooU - step*int64(1+rng.Intn(4)) // clearly late
		}
		if rng.Bool(0.15) { // snap to a boundary or the unit before it
			ts = ts - ts%sizeU - []int64{0, 1}[rng.Intn(2)]
		}
		if i == 1 && rng.Bool(0.35) && oooU > 0 {
			// second row earlier than the first row's window but within tolerance
			first := cur
			ts = first - first%step - 1 - int64(rng.Intn(int(minI64(oooU, step))+1))%maxI64(1, oooU)
			if first-ts > oooU {
				ts = first - oooU
			}
		}
		if ts < base-maxSpanU/4 {
			ts = base - maxSpanU/4
		}
		tup := tuples[rng.Intn(len(tuples))]
		row := Row{"id": fmt.Sprintf("r%03d", i)}
		for k, col := range sp.KeyCols {
			if tup[k] == nil && rng.Bool(0.5) {
				continue
			}
			row[col] = tup[k]
		}
		switch rng.Intn(8) {
		case 0:
			row["v"] = nil
		case 1:
		default:
			row["v"] = rng.Intn(21) - 5
		}
		row["ts"] = int(ts)
		if sp.Garbage && rng.Bool(0.18) {
			switch rng.Intn(4) {
			case 0:
				delete(row, "ts")
				row["g"] = "missing"
			case 1:
				row["ts"] = "not-a-number"
				row["g"] = "nonnumeric"
			case 2:
				row["ts"] = nil
				row["g"] = "null"
			default:
				// >= 30 days ahead of any fake "now" of the run: far beyond now + OOO + 24h
				row["ts"] = int(epochU + int64(30*24*time.Hour)/u + int64(rng.Intn(1000))*sizeU)
				row["g"] = "future"
			}
		} else if ts > maxTS {
			maxTS = ts
		}
		if rng.Bool(sleepP) {
			ops = append(ops, Op{K: "sleep", D: int64(sleeps[rng.Intn(len(sleeps))])})
		}
		ops = append(ops, Op{K: "emit", Row: row, Tag: row["id"].(string)})
	}
	if stall {
		ops = append(ops, Op{K: "sleep", D: int64(20 * time.Second)}) // everything so far is delivered
		spacing := 2*sizeU + step
		cur += spacing + oooU
		m := 12 + rng.Intn(12)
		type tgt struct {
			tup []any
			ts  int64
		}
		var tgts []tgt
		mk := func(id string, tup []any, ts int64) {
			row := Row{"id": id, "v": rng.Intn(21) - 5, "ts": int(ts)}
			for k, col := range sp.KeyCols {
				row[col] = tup[k]
			}
			if ts > maxTS {
				maxTS = ts
			}
			ops = append(ops, Op{K: "emit", Row: row, Tag: id})
		}
		for j := 0; j < m; j++ {
			t := tgt{tuples[rng.Intn(len(tuples))], cur}
			tgts = append(tgts, t)
			mk(fmt.Sprintf("p%02d", j), t.tup, t.ts)
			cur += spacing
		}
		// z1 closes every target in one round; the pause lets the trigger goroutine pick them up
		cur += oooU + 1
		mk("z1", tuples[rng.Intn(len(tuples))], cur)
		ops = append(ops, Op{K: "sleep", D: int64([]time.Duration{time.Millisecond, 400 * time.Millisecond}[rng.Intn(2)])})
		beyond := rng.Intn(3) // 0: late rows inside the allowance, 1: beyond it for all, 2: z2 in the middle of them
		if beyond == 1 {
			cur += sp.AL/u + spacing*int64(m) + 1
			mk("z2", tuples[rng.Intn(len(tuples))], cur)
		}
		for j := m - 1; j >= 0; j-- {
			if beyond == 2 && j == m/2 {
				cur += sp.AL/u + spacing*int64(m) + 1
				mk("z2", tuples[rng.Intn(len(tuples))], cur)
			}
			mk(fmt.Sprintf("q%02d", j), tgts[j].tup, tgts[j].ts+int64(rng.Intn(2)))
		}
		c.X["stall"] = true
	}
	if maxTS == math.MinInt64 {
		maxTS = base
	}
	// flush row: far enough ahead to close every window / session the data opened
	flushTS := maxTS + oooU + 3*maxI64(sizeU, step) + (sp.AL/u)*2 + 1
	ops = append(ops, Op{K: "sleep", D: int64(time.Millisecond)})
	ops = append(ops, Op{K: "emit", Row: Row{"id": "flush", "ts": int(flushTS), "k1": "~flush", "k2": "~flush", "v": 0}, Tag: "flush"})
	if sp.Garbage && sp.Size >= int64(time.Second) && rng.Bool(0.5) {
		// ratchet attempt: a legitimately skewed row 20h ahead of the clock (inside the 24h slack,
		// accepted), then one 40h ahead (garbage by the wall clock, however far the watermark
		// already is): the second one must not move the watermark, so the first one's window
		// must never fire
		ops = append(ops, Op{K: "sleep", D: int64(50 * time.Millisecond)})
		ops = append(ops, Op{K: "emit", Row: Row{"id": "ahead", "ts": int(epochU + int64(20*time.Hour)/u), "k1": "~ahead", "k2": "~ahead", "v": 1}, Tag: "ahead"})
		ops = append(ops, Op{K: "emit", Row: Row{"id": "beyond", "ts": int(epochU + int64(40*time.Hour)/u), "k1": "~ahead", "k2": "~ahead", "v": 1, "g": "future"}, Tag: "beyond"})
	}
	c.Clients = [][]Op{ops}
	perf := &PerfSpec{ResultChan: 2 + rng.Intn(4), Workers: 1 + rng.Intn(2), PoolSize: 1 + rng.Intn(3)}
	shortBlock := false
	if rng.Bool(0.4) {
		perf.Strategy = "block"
		perf.BlockTimeout = int64(time.Hour)
		perf.DataChan = 1 + rng.Intn(4)
		perf.WindowOut = len(ops) + 64
		if rng.Bool(0.25) {
			// a block timeout of 3 s with a tiny output buffer behind a slow sink: no hand-off
			// ever waits that long (the sink's delay is far shorter and the clock is not forced
			// forward in these runs), so nothing may be dropped
			shortBlock = true
			perf.BlockTimeout = int64(3 * time.Second)
			perf.WindowOut = 1
		}
	} else {
		perf.Strategy = "drop"
		perf.DataChan = len(ops) + 8
		perf.WindowOut = len(ops)*8 + 64
	}
	sink := SinkSpec{Mode: "sync"}
	if rng.Bool(0.3) {
		sink.Fault, sink.Every = "slow", 1+rng.Intn(3)
		sink.D = int64([]time.Duration{100 * time.Microsecond, 5 * time.Millisecond, 300 * time.Millisecond}[rng.Intn(3)])
	}
	if shortBlock && !burst {
		sink.Fault, sink.Every, sink.D = "slow", 1+rng.Intn(2), int64([]time.Duration{50 * time.Millisecond, 300 * time.Millisecond}[rng.Intn(2)])
		c.X["short_block"] = true
	}
	if stall {
		perf.Strategy, perf.BlockTimeout, perf.DataChan, perf.WindowOut, perf.ResultChan = "block", int64(time.Hour), 1+rng.Intn(4), 1, 1+rng.Intn(2)
		sink.Fault, sink.Every, sink.D = "slow", 1, int64([]time.Duration{50 * time.Millisecond, 300 * time.Millisecond, 2 * time.Second}[rng.Intn(3)])
		shortBlock = false
		delete(c.X, "short_block")
	}
	if burst {
		perf.Strategy, perf.BlockTimeout, perf.DataChan, perf.WindowOut = "block", int64(time.Hour), 1+rng.Intn(4), 1
		sink.Fault, sink.Every, sink.D = "slow", 1, int64([]time.Duration{50 * time.Millisecond, 300 * time.Millisecond}[rng.Intn(2)])
		c.X["burst"] = true
	}
	sp.store(c)
	c.Insts = []InstSpec{{SQL: sp.sql(), Perf: perf, Sinks: []SinkSpec{sink}}}
	adv := []time.Duration{time.Microsecond, time.Millisecond, 100 * time.Millisecond, 200 * time.Millisecond, time.Second}
	if sp.Idle > 0 {
		adv = append(adv, time.Duration(sp.Idle)+time.Millisecond)
	}
	c.Policy = genPolicy(rng, adv, false)
	if c.X["short_block"] != nil {
		c.Policy.AdvProb = 0 // time only passes when everything waits: a hand-off waits for the sink, never for the timeout
	}
	c.Settle = int64(3 * time.Second)
	c.Horizon = int64(6 * time.Hour)
	c.MaxSteps = 400000
	if burst {
		c.MaxSteps = 3000000
	}
	c.Variant = sp.Kind
	return c
}

func minI64(a, b int64) int64 {
	if a < b {
		return a
	}
	return b
}
func maxI64(a, b int64) int64 {
	if a > b {
		return a
	}
	return b
}
func floorDiv(a, b int64) int64 {
	q := a / b
	if (a%b != 0) && ((a < 0) != (b < 0)) {
		q--
	}
	return q
}

// ---------------------------------------------------------------------------------------------
// ledger

type evRow struct {
	Idx      int
	ID       string
	Row      map[string]any
	Keys     []any
	KeyS     string
	TS       int64 // ns
	Usable   bool  // has a usable timestamp
	Future   bool  // beyond the future guard
	Accepted bool  // Usable && !Future
	WM       int64 // watermark (ns) right after this row was ingested; MinInt64 while none
	Late     bool  // Accepted && TS < WM
	EmitT    time.Duration
	IngestT  time.Duration
	IdleRisk bool // an idle-timeout advance may have happened before this row was ingested
}

type evLedger struct {
	Rows        []*evRow
	ByID        map[string]*evRow
	RawByID     map[string]map[string]any
	WMFinal     int64
	MinTS       int64 // min usable ts over accepted rows
	MinOnT      int64 // min ts over on-time rows
	IngestKnown bool
}

func buildLedger(e *Env, sp *evSpec) *evLedger {
	l := &evLedger{ByID: map[string]*evRow{}, RawByID: map[string]map[string]any{}, WMFinal: math.MinInt64, MinTS: math.MaxInt64, MinOnT: math.MaxInt64}
	maxTS := int64(math.MinInt64)
	nUsable := 0
	for _, rec := range e.Ops {
		if rec.Op.K == "emit" {
			if _, ok := rec.Op.Row["ts"].(int); ok {
				nUsable++
			}
		}
	}
	// ingestion instants are known when every row with a usable timestamp was seen entering
	// Watermark.UpdateEventTime exactly once
	l.IngestKnown = len(e.IngestT) == nUsable
	if sp.Idle > 0 && !l.IngestKnown {
		e.Probe("idle_clause_not_judged_ingest_instants_unknown")
	}
	usableIdx := 0
	idleRisk := false
	var lastIngest time.Duration = -1
	for _, rec := range e.Ops {
		if rec.Op.K != "emit" {
			continue
		}
		row := rec.Op.Row
		r := &evRow{Idx: len(l.Rows), ID: row["id"].(string), Row: row, Keys: rowKeys(row, sp.KeyCols), EmitT: rec.TInv}
		r.KeyS = keyString(r.Keys)
		if sp.Idle > 0 {
			if !l.IngestKnown {
				idleRisk = true // cannot bound the idle advance: judge nothing that depends on it
			} else {
				if _, usable := row["ts"].(int); usable {
					r.IngestT = e.IngestT[usableIdx]
					usableIdx++
					if lastIngest >= 0 && r.IngestT-lastIngest >= time.Duration(sp.Idle) {
						idleRisk = true
					}
					// a stall of IDLETIMEOUT inside the arrival itself (between recording the event and
					// testing its lateness) lets the idle advance overtake the row
					if e.IngestEnd[usableIdx-1]-r.IngestT >= time.Duration(sp.Idle) {
						idleRisk = true
					}
					lastIngest = r.IngestT
				}
			}
		}
		r.IdleRisk = idleRisk
		if n, ok := row["ts"].(int); ok {
			r.Usable = true
			r.TS = int64(n) * sp.UnitNS
			// future guard: ts > now + OOO + 24h (garbage rows are generated >= 30 days ahead)
			nowNS := fakeEpochMS*int64(time.Millisecond) + int64(rec.TInv)
			r.Future = r.TS > nowNS+sp.OOO+int64(24*time.Hour)
			r.Accepted = !r.Future
		}
		if r.Accepted {
			if r.TS > maxTS {
				maxTS = r.TS
			}
			if r.TS < l.MinTS {
				l.MinTS = r.TS
			}
		}
		if maxTS != math.MinInt64 {
			r.WM = maxTS - sp.OOO
		} else {
			r.WM = math.MinInt64
		}
		r.Late = r.Accepted && r.TS < r.WM
		if r.Accepted && !r.Late && !r.IdleRisk && r.ID != "flush" && r.TS < l.MinOnT {
			l.MinOnT = r.TS
		}
		l.Rows = append(l.Rows, r)
		l.ByID[r.ID] = r
		l.RawByID[r.ID] = row
	}
	if maxTS != math.MinInt64 {
		l.WMFinal = maxTS - sp.OOO
	}
	return l
}

// maxAcceptedBefore: the largest accepted timestamp among the first n emitted rows.
func (l *evLedger) maxAcceptedBefore(n int) int64 {
	m := int64(math.MinInt64)
	for i := 0; i < n && i < len(l.Rows); i++ {
		if r := l.Rows[i]; r.Accepted && r.TS > m {
			m = r.TS
		}
	}
	return m
}

type interval struct{ S, E int64 }

type gwKey struct {
	g  string
	iv interval
}

func (sp *evSpec) covering(ts int64) []interval {
	switch sp.Kind {
	case "tumbling":
		s := floorDiv(ts, sp.Size) * sp.Size
		return []interval{{s, s + sp.Size}}
	case "sliding":
		var out []interval
		for s := floorDiv(ts, sp.Slide) * sp.Slide; s+sp.Size > ts; s -= sp.Slide {
			out = append(out, interval{s, s + sp.Size})
		}
		return out
	}
	return nil
}

// evRun executes an event-time window case and returns the instance statistics, or false if the
// run must not be judged.
func evRun(e *Env) (map[string]int64, bool) {
	e.WatchIngest()
	if err := e.Setup(); err != nil {
		e.R.Infra = "setup: " + err.Error()
		return nil, false
	}
	in := e.Insts[0]
	e.StartClients()
	if err := e.RunClients(); err != nil {
		if err == simrt.ErrMaxSteps {
			e.R.Discard = "step budget exhausted in client phase"
		} else {
			e.Violate(e.C.Prop+"/producer-stuck", "", "client did not finish: %v; parked=%v", err, e.Sim.ParkedSites())
		}
		return nil, false
	}
	var st map[string]int64
	prev := -1
	for round := 0; round < 400; round++ { // until a whole settle period brings no progress
		settle := time.Duration(e.C.Settle)
		if round == 0 && e.C.xBool("settle_elapsed") {
			// processing-time windows advance one interval per tick and never catch up on ticks lost
			// to injected stalls: the lag is bounded by the elapsed time, so wait that long once
			settle += e.Now()
		}
		if err := e.Settle(settle); err != nil {
			e.R.Discard = "settle: " + err.Error()
			return nil, false
		}
		if err := e.Do("stats", func() { st = in.S.GetStats() }); err != nil {
			e.R.Discard = "stats: " + err.Error()
			return nil, false
		}
		if len(in.Deliveries) == prev && st["data_chan_len"] == 0 && st["bufferUsed"] == 0 {
			break
		}
		prev = len(in.Deliveries)
	}
	if st["input_dropped_count"] > 0 || windowDropped(st) > 0 {
		if e.C.xBool("short_block") && windowDropped(st) > 0 {
			// (input rows are another matter: Emit waits while the pipeline handles a whole row,
			// which can be many window results times the sink's delay — such drops are legitimate)
			e.Probe("short_block_timeout")
			e.Violate(e.C.Prop+"/block-dropped-before-timeout", in.Spec.Perf.Strategy, "block strategy with a %v timeout dropped %d window result(s) although no hand-off of a result can have waited that long: the consumer takes one result at a time, its slowest step takes %v, and the clock only moved while everything was waiting",
				time.Duration(in.Spec.Perf.BlockTimeout), windowDropped(st), time.Duration(in.Spec.Sinks[0].D))
			return nil, false
		}
		e.R.Discard = fmt.Sprintf("overflow drop (input_dropped=%d window dropped=%d): not judged", st["input_dropped_count"], windowDropped(st))
		return nil, false
	}
	if e.C.xBool("short_block") {
		e.Probe("short_block_timeout")
	}
	return st, true
}

// winDelivery is one delivered (group, interval) result with provenance.
type winDelivery struct {
	*WinResult
	Seq int // index of the delivery
}

func collectWinResults(e *Env, keyCols []string, prop string) []*winDelivery {
	var out []*winDelivery
	for di, d := range e.Insts[0].Deliveries {
		for _, row := range d.Rows {
			r, err := parseWinResult(d, row, keyCols)
			if err != nil {
				e.Violate(prop+"/malformed-result", "", "%v", err)
				continue
			}
			if len(r.IDs) == 1 && r.IDs[0] == "flush" {
				continue
			}
			out = append(out, &winDelivery{r, di})
		}
	}
	return out
}

func fmtNS(ns int64) string {
	if ns == math.MinInt64 {
		return "-inf"
	}
	return time.Unix(0, ns).UTC().Format("15:04:05.000")
}

func idList(ids []string) string { return "[" + strings.Join(ids, " ") + "]" }

// checkTimeWindows is the oracle for tumbling and sliding event-time windows. prop selects which
// statement is being judged: C01 / C08 judge assignment, exactly-once and completeness with
// ALLOWEDLATENESS = 0; C02 judges the watermark discipline (early firing, on-time loss, late
// updates, expiry, garbage).
func checkTimeWindows(e *Env, sp *evSpec, l *evLedger, prop string) {
	res := collectWinResults(e, sp.KeyCols, prop)
	type gw = gwKey
	delivered := map[gw][]*winDelivery{}
	rowSeen := map[string][]*winDelivery{}
	lastFirstWS := int64(math.MinInt64)
	firstSeenIv := map[interval]bool{}
	lower := int64(math.MinInt64)
	if sp.Kind == "sliding" && l.MinTS != math.MaxInt64 {
		lower = floorDiv(l.MinTS, sp.Slide) * sp.Slide
	}
	align := sp.Size
	if sp.Kind == "sliding" {
		align = sp.Slide
	}
	for _, r := range res {
		e.Oblig(1)
		iv := interval{r.WS, r.WE}
		k := gw{keyString(r.Keys), iv}
		// interval shape
		if r.WE-r.WS != sp.Size || floorDiv(r.WS, align)*align != r.WS {
			e.Violate(prop+"/misaligned-interval", sp.Kind, "result reports [%d,%d) (%s..%s): not a %s-aligned interval of length %s", r.WS, r.WE, fmtNS(r.WS), fmtNS(r.WE), durSQL(align), durSQL(sp.Size))
		}
		if want := fmt.Sprintf("%d_%d", r.WS, r.WE); r.WindowID != want {
			e.Violate(prop+"/window-id", sp.Kind, "window_id=%q, window_start/end give %q", r.WindowID, want)
		}
		if sp.Kind == "sliding" && r.WS < lower {
			e.Violate(prop+"/window-before-earliest-event", sp.Kind, "interval starts at %s, earlier than the slide-aligned start %s of the earliest accepted event", fmtNS(r.WS), fmtNS(lower))
		}
		// membership
		inThis := map[string]bool{}
		for _, id := range r.IDs {
			er := l.ByID[id]
			if er == nil {
				e.Violate(prop+"/unknown-row", sp.Kind, "result contains id %q that was never emitted", id)
				continue
			}
			if inThis[id] {
				e.Violate(prop+"/row-twice-in-one-result", sp.Kind, "row %s occurs twice in result %s", id, r.WindowID)
			}
			inThis[id] = true
			if !er.Accepted {
				e.Violate("C02/garbage-row-in-result", sp.Kind, "row %s (ts=%v, %v) has no usable / a far-future timestamp but is aggregated in window %s", id, er.Row["ts"], er.Row["g"], r.WindowID)
				continue
			}
			if er.TS < r.WS || er.TS >= r.WE {
				e.Violate(prop+"/row-in-wrong-window", sp.Kind, "row %s ts=%s counted in [%s,%s)", id, fmtNS(er.TS), fmtNS(r.WS), fmtNS(r.WE))
			}
			if er.KeyS != k.g {
				e.Violate(prop+"/row-in-wrong-group", sp.Kind, "row %s of group %s counted in group %s", id, er.KeyS, k.g)
			}
			rowSeen[id] = append(rowSeen[id], r)
		}
		if msg := checkAggs(r.WinResult, l.RawByID); msg != "" {
			e.Violate(prop+"/aggregate-mismatch", sp.Kind, "window %s group %s: %s", r.WindowID, k.g, msg)
		}
		prevs := delivered[k]
		delivered[k] = append(prevs, r)
		if len(prevs) > 0 {
			if sp.AL == 0 {
				e.Violate(prop+"/interval-reported-twice", sp.Kind, "group %s interval [%s,%s) delivered %d times with ALLOWEDLATENESS=0", k.g, fmtNS(r.WS), fmtNS(r.WE), len(prevs)+1)
			} else if prop == "C02" {
				// re-delivery: superset of the previous contents, extras are late rows of this window
				p := prevs[len(prevs)-1]
				have := map[string]bool{}
				for _, id := range r.IDs {
					have[id] = true
				}
				// signature of the first firing being overtaken by a late update: the later delivery is
				// a subset of the earlier one and holds no late row, the earlier one does
				lateIn := func(ids []string) int {
					n := 0
					for _, id := range ids {
						if er := l.ByID[id]; er != nil && er.Late {
							n++
						}
					}
					return n
				}
				overtaken := containsAll(p.IDs, r.IDs) && lateIn(r.IDs) == 0 && lateIn(p.IDs) > 0
				for _, id := range p.IDs {
					if !have[id] {
						if overtaken {
							e.Violate("C02/first-firing-overtaken-by-late-update", sp.Kind, "window %s group %s: the late update %s was delivered before the first firing %s, which then replaced it", r.WindowID, k.g, idList(p.IDs), idList(r.IDs))
						} else {
							e.Violate("C02/late-update-lost-row", sp.Kind, "re-delivery of window %s group %s lacks row %s of the previous delivery (prev %s, now %s)", r.WindowID, k.g, id, idList(p.IDs), idList(r.IDs))
						}
					}
				}
				old := map[string]bool{}
				for _, id := range p.IDs {
					old[id] = true
				}
				for _, id := range r.IDs {
					if er := l.ByID[id]; er != nil && !old[id] && !er.Late && !er.IdleRisk {
						e.Violate("C02/late-update-adds-on-time-row", sp.Kind, "re-delivery of window %s adds row %s which was not late on arrival", r.WindowID, id)
					}
				}
				e.Probe("late_update_redelivery")
			}
		}
		// first deliveries of sliding intervals come in increasing order
		if !firstSeenIv[iv] {
			firstSeenIv[iv] = true
			if sp.Kind == "sliding" && prop == "C08" {
				if r.WS < lastFirstWS {
					e.Violate("C08/out-of-order", sp.Kind, "interval starting %s first delivered after the interval starting %s", fmtNS(r.WS), fmtNS(lastFirstWS))
				}
				if r.WS > lastFirstWS {
					lastFirstWS = r.WS
				}
			}
		}
		// C02(a): no early firing
		if prop == "C02" {
			need := r.WE + sp.OOO
			have := l.maxAcceptedBefore(r.D.Emits)
			idleOK := false
			if sp.Idle > 0 {
				// the source may legitimately have been idle: an ingestion gap >= IDLETIMEOUT before
				// this delivery, or the delivery itself came >= IDLETIMEOUT after the last ingestion
				if !l.IngestKnown {
					idleOK = true
				}
				var last time.Duration = -1
				for _, er := range l.Rows {
					if !er.Usable || er.IngestT > r.D.T {
						continue
					}
					if er.IdleRisk {
						idleOK = true
					}
					last = er.IngestT
				}
				if last >= 0 && r.D.T-last >= time.Duration(sp.Idle) {
					idleOK = true
				}
			}
			if have < need && !idleOK && len(prevs) == 0 {
				e.Violate("C02/early-firing", sp.Kind, "window [%s,%s) delivered when only %d rows had been emitted, max accepted ts %s < end+OOO %s", fmtNS(r.WS), fmtNS(r.WE), r.D.Emits, fmtNS(have), fmtNS(need))
			}
			if idleOK && have < need {
				e.Probe("idle_advance_fired")
			}
		}
	}
	// per-row obligations
	for _, er := range l.Rows {
		if er.ID == "flush" {
			continue
		}
		seen := rowSeen[er.ID]
		if !er.Accepted {
			continue // absence already enforced above
		}
		covers := sp.covering(er.TS)
		if !er.Late && !er.IdleRisk {
			// due windows: every covering interval (sliding: not before the earliest on-time event's
			// aligned start) whose end the final watermark passed
			for _, iv := range covers {
				if sp.Kind == "sliding" && l.MinOnT != math.MaxInt64 && iv.S < floorDiv(l.MinOnT, sp.Slide)*sp.Slide {
					continue
				}
				if iv.E > l.WMFinal {
					continue
				}
				e.Oblig(1)
				found := false
				for _, r := range seen {
					if r.WS == iv.S && r.WE == iv.E {
						found = true
					}
				}
				site := sp.Kind
				if iv.S < floorDiv(l.firstAcceptedTS(), align)*align {
					site += "/before-first-window" // the interval starts before the aligned start of the first arrival
				}
				if !found {
					switch prop {
					case "C02":
						e.Violate("C02/on-time-row-discarded", site, "row %s ts=%s was not late on arrival (watermark %s) but is in no delivery of [%s,%s) although the final watermark %s passed its end", er.ID, fmtNS(er.TS), fmtNS(er.WM), fmtNS(iv.S), fmtNS(iv.E), fmtNS(l.WMFinal))
					case "C01":
						e.Violate("C01/on-time-row-never-emitted", site, "row %s ts=%s (watermark on arrival %s) is in no result of its interval [%s,%s); final watermark %s", er.ID, fmtNS(er.TS), fmtNS(er.WM), fmtNS(iv.S), fmtNS(iv.E), fmtNS(l.WMFinal))
					case "C08":
						e.Violate("C08/row-missing-from-covering-window", site, "row %s ts=%s (on time) is missing from interval [%s,%s) (delivered in %d of its %d covering intervals); final watermark %s", er.ID, fmtNS(er.TS), fmtNS(iv.S), fmtNS(iv.E), len(seen), len(covers), fmtNS(l.WMFinal))
					}
				}
			}
		}
		if sp.AL == 0 && sp.Kind == "tumbling" && len(seen) > 1 {
			e.Violate(prop+"/row-counted-twice", sp.Kind, "row %s contributes to %d results", er.ID, len(seen))
		}
		if er.Late {
			e.Probe("late_row")
			if len(seen) > 0 {
				e.Probe("late_row_kept")
			}
		}
		if prop == "C02" && er.Late && !er.IdleRisk {
			checkLateRow(e, sp, l, er, covers, delivered, seen)
		}
	}
	if l.firstAcceptedTS() != math.MaxInt64 {
		for _, er := range l.Rows {
			if er.Accepted && !er.Late && er.ID != "flush" && er.TS < floorDiv(l.firstAcceptedTS(), align)*align {
				e.Probe("on_time_row_before_first_window")
			}
		}
	}
	nGarbage := 0
	for _, er := range l.Rows {
		if !er.Accepted {
			nGarbage++
		}
	}
	if nGarbage > 0 {
		e.Fault("garbage_timestamp_rows")
		e.R.Faults["garbage_timestamp_rows"] += nGarbage - 1
	}
	ivs := map[interval]bool{}
	for k := range delivered {
		ivs[k.iv] = true
	}
	e.R.Summary = map[string]any{"kind": sp.Kind, "size": durSQL(sp.Size), "slide": durSQL(sp.Slide), "ooo": durSQL(sp.OOO), "al": durSQL(sp.AL),
		"rows": len(l.Rows), "results": len(res), "intervals": len(ivs), "garbage_rows": nGarbage}
	if len(ivs) >= 3 {
		e.Probe("three_or_more_windows")
	}
	if e.C.xBool("burst") {
		e.Probe("burst_behind_blocked_output")
	}
}

func (l *evLedger) firstAcceptedTS() int64 {
	for _, r := range l.Rows {
		if r.Accepted {
			return r.TS
		}
	}
	return math.MaxInt64
}

// checkLateRow: C02 (c) late updates and (d) expiry for one late row.
func checkLateRow(e *Env, sp *evSpec, l *evLedger, er *evRow, covers []interval, delivered map[gwKey][]*winDelivery, seen []*winDelivery) {
	// (d) expiry: allowance over for every covering window => the row changes nothing
	allExpired := true
	for _, iv := range covers {
		if er.WM < iv.E+sp.AL {
			allExpired = false
		}
	}
	if allExpired {
		e.Oblig(1)
		e.Probe("late_row_after_allowance")
		if len(seen) > 0 {
			r := seen[0]
			e.Violate("C02/expired-late-row-changed-result", sp.Kind, "row %s ts=%s arrived when the watermark %s had passed end+ALLOWEDLATENESS of every window containing it, yet it is aggregated in [%s,%s)", er.ID, fmtNS(er.TS), fmtNS(er.WM), fmtNS(r.WS), fmtNS(r.WE))
		}
		return
	}
	// (d) per window: the row is not aggregated in a window whose allowance had ended when it
	// arrived, whatever other windows still take it (sliding: the older of the covering windows)
	for _, r := range seen {
		if er.WM >= r.WE+sp.AL {
			// two different ways to get there: the window had not been delivered yet when the row
			// arrived (the trigger goroutine was behind the watermark and the row, kept for a later
			// covering window, is picked up when the overdue window finally fires), or it had and
			// was updated although its allowance was over
			site := sp.Kind + "/overdue-window-not-yet-fired"
			for k, ds := range delivered {
				if k.iv != (interval{r.WS, r.WE}) {
					continue
				}
				for _, d := range ds {
					if d.D.Emits <= er.Idx && d.D.End > 0 {
						site = sp.Kind + "/expired-window-updated"
					}
				}
			}
			if strings.HasSuffix(site, "/expired-window-updated") {
				// was this delivery owed to another late row, one that arrived inside the window's
				// allowance? Then the expired row did not cause the update, it leaked into it from
				// the shared row buffer when the update was built (the family of the known finding);
				// an update that brings nothing but expired rows was caused by one of them (b86dd0e)
				// (an update re-delivers every group of the window in one batch: look at all of them)
				for k, ds := range delivered {
					if k.iv != (interval{r.WS, r.WE}) {
						continue
					}
					for _, d := range ds {
						if d.D != r.D {
							continue
						}
						var prev *winDelivery
						for _, p := range ds {
							if p.Seq < d.Seq && (prev == nil || p.Seq > prev.Seq) {
								prev = p
							}
						}
						had := map[string]bool{}
						if prev != nil {
							for _, id := range prev.IDs {
								had[id] = true
							}
						}
						for _, id := range d.IDs {
							if o := l.ByID[id]; o != nil && !had[id] && id != er.ID && o.Late && o.WM < r.WE+sp.AL {
								site = sp.Kind + "/leaked-into-an-owed-update-of-a-closed-window"
							}
						}
					}
				}
			}
			e.Violate("C02/expired-late-row-changed-result", site, "row %s ts=%s arrived when the watermark %s had passed end+ALLOWEDLATENESS (%s) of window [%s,%s), yet it is aggregated there", er.ID, fmtNS(er.TS), fmtNS(er.WM), fmtNS(r.WE+sp.AL), fmtNS(r.WS), fmtNS(r.WE))
			break // one report per row; the late-update clause below is judged as well
		}
	}
	if sp.AL == 0 {
		return
	}
	// (c): windows that had a delivery observed before the row was emitted and are still inside
	// the allowance must be re-delivered with previous contents + this row
	for _, iv := range covers {
		if er.WM >= iv.E+sp.AL {
			continue
		}
		// any delivery of this interval (any group) observed before the row's Emit was invoked?
		var before *winDelivery
		for k, ds := range delivered {
			if k.iv != iv {
				continue
			}
			for _, d := range ds {
				if d.D.Emits <= er.Idx && d.D.End > 0 { // delivery began before this row's Emit was invoked
					if before == nil || d.Seq > before.Seq {
						before = d
					}
				}
			}
		}
		if before == nil {
			continue
		}
		e.Oblig(1)
		e.Probe("late_row_into_fired_window")
		ok := false
		for _, d := range seen {
			if d.WS == iv.S && d.WE == iv.E && d.Seq > before.Seq {
				ok = true
			}
		}
		if !ok {
			site := sp.Kind
			if len(seen) > 0 {
				site += "/some-covering-window-updated"
			}
			e.Violate("C02/late-update-missing", site, "late row %s ts=%s arrived (watermark %s) after window [%s,%s) had been delivered and before its allowance ended (%s), but no later delivery of that window contains it", er.ID, fmtNS(er.TS), fmtNS(er.WM), fmtNS(iv.S), fmtNS(iv.E), fmtNS(iv.E+sp.AL))
		}
	}
}
