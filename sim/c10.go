package sim

import (
	"fmt"
	"math"
	"sort"
	"time"

	"verif.local/simrt"
)

// C10 — session windows split a key's events at gaps above the timeout, each event once
// (DESIGN.md §3 C10). Event time. Variant "twin": the same rows are fed to two instances at two
// different speeds and the delivered partitions must agree for in-order input.

type c10 struct{}

func init() { register(c10{}) }

func (c10) ID() string { return "C10" }

func genSessionCase(rng *simrt.Rand, tier string, allowAL bool) *Case {
	max := 30
	if tier == "thorough" {
		max = 70
	}
	c := genEvCase(rng, tier, evGenOpts{Kinds: []string{"session"}, LateRows: 0.06, MaxRows: max, AllowAL: allowAL, Adversary: true, Burst: true})
	return c
}

func (c10) Gen(rng *simrt.Rand, seed uint64, tier string) *Case {
	c := genSessionCase(rng, tier, false)
	sp := loadEvSpec(c)
	// per-key timestamp shaping: rewrite timestamps so that keys see dense bursts and gaps of
	// timeout-1, timeout, timeout+1 units
	u := sp.UnitNS
	toU := sp.Size / u
	perKeyLast := map[string]int64{}
	for i := range c.Clients[0] {
		op := &c.Clients[0][i]
		if op.K != "emit" || op.Tag == "flush" {
			continue
		}
		ts, ok := op.Row["ts"].(int)
		if !ok {
			continue
		}
		ks := keyString(rowKeys(op.Row, sp.KeyCols))
		if last, seen := perKeyLast[ks]; seen && rng.Bool(0.5) {
			gap := []int64{0, 1, toU / 2, toU - 1, toU, toU + 1, toU * 2}[rng.Intn(7)]
			if gap < 0 {
				gap = 0
			}
			nts := last + gap
			// keep the global sequence roughly monotone: only move forward in time, and stay far
			// below the future guard (now + 24h): the guard is evaluated at ingestion, which the
			// ledger cannot observe
			if nts >= int64(ts)-sp.OOO/u && nts < fakeEpochMS*int64(time.Millisecond)/u+int64(10*time.Hour)/u {
				op.Row["ts"] = int(nts)
				ts = int(nts)
			}
		}
		if int64(ts) > perKeyLast[ks] {
			perKeyLast[ks] = int64(ts)
		}
	}
	// recompute the flush row
	var maxTS int64 = math.MinInt64
	for _, op := range c.Clients[0] {
		if op.K == "emit" && op.Tag != "flush" {
			if ts, ok := op.Row["ts"].(int); ok && int64(ts) > maxTS {
				maxTS = int64(ts)
			}
		}
	}
	for i := range c.Clients[0] {
		if op := &c.Clients[0][i]; op.Tag == "flush" {
			op.Row["ts"] = int(maxTS + sp.OOO/u + 3*toU + 1)
		}
	}
	if rng.Bool(0.4) {
		// twin: second instance, same rows, different feed speed
		c.Variant = "session-twin"
		c.Insts = append(c.Insts, c.Insts[0])
		c.Insts[1].Sinks = []SinkSpec{{Mode: "sync"}}
		var ops []Op
		fast := rng.Bool(0.5)
		for _, op := range c.Clients[0] {
			if op.K == "emit" {
				o := op
				o.I = 1
				ops = append(ops, o)
				if !fast && rng.Bool(0.6) {
					ops = append(ops, Op{K: "sleep", D: int64(time.Duration(250+rng.Intn(500)) * time.Millisecond)})
				}
			}
		}
		c.Clients = append(c.Clients, ops)
	}
	c.FaultFree = c.Insts[0].Sinks[0].Fault == ""
	return c
}

func (c10) Run(e *Env) {
	sp := loadEvSpec(e.C)
	if _, ok := evRun(e); !ok {
		return
	}
	if len(e.Insts) == 2 {
		var st map[string]int64
		if err := e.Do("stats1", func() { st = e.Insts[1].S.GetStats() }); err != nil || st["input_dropped_count"] > 0 || windowDropped(st) > 0 {
			e.R.Discard = "twin instance overflow or stats failure"
			return
		}
	}
	l := buildLedgerFor(e, sp, 0)
	parts0 := checkSessionsInst(e, sp, l, "C10", 0)
	if len(e.Insts) == 2 {
		l1 := buildLedgerFor(e, sp, 1)
		parts1 := checkSessionsInst(e, sp, l1, "C10", 1)
		compareTwin(e, sp, l, l1, parts0, parts1)
	}
}

func checkSessions(e *Env, sp *evSpec, l *evLedger, prop string) {
	checkSessionsInst(e, sp, l, prop, 0)
}

// sessionPart: the delivered partition of one key: list of id sets (first deliveries only).
type sessionPart map[string][][]string

// checkSessionsInst judges the deliveries of instance inst against the session invariants.
func checkSessionsInst(e *Env, sp *evSpec, l *evLedger, prop string, inst int) sessionPart {
	timeout := sp.Size
	parts := sessionPart{}
	type sess struct {
		r    *WinResult
		seq  int
		g    string
		ts   []int64
		prev *sess
	}
	var all []*sess
	byWin := map[string][]*sess{} // key|window_start -> deliveries (re-deliveries share it)
	rowSeen := map[string][]*sess{}
	mergedKeys := map[string]bool{}
	for di, d := range e.Insts[inst].Deliveries {
		for _, row := range d.Rows {
			r, err := parseWinResult(d, row, sp.KeyCols)
			if err != nil {
				e.Violate(prop+"/malformed-result", "session", "%v", err)
				continue
			}
			if len(r.IDs) == 1 && r.IDs[0] == "flush" {
				continue
			}
			e.Oblig(1)
			s := &sess{r: r, seq: di, g: keyString(r.Keys)}
			for _, id := range r.IDs {
				er := l.ByID[id]
				if er == nil {
					e.Violate(prop+"/unknown-row", "session", "result contains id %q that was never emitted", id)
					continue
				}
				if !er.Accepted {
					e.Violate("C02/garbage-row-in-result", "session", "row %s (ts=%v) has no usable / a far-future timestamp but is reported in a session", id, er.Row["ts"])
					continue
				}
				if er.KeyS != s.g {
					e.Violate(prop+"/row-in-wrong-group", "session", "row %s of key %s reported in a session of key %s (session [%s,%s))", id, er.KeyS, s.g, fmtNS(r.WS), fmtNS(r.WE))
					continue
				}
				s.ts = append(s.ts, er.TS)
			}
			sort.Slice(s.ts, func(i, j int) bool { return s.ts[i] < s.ts[j] })
			all = append(all, s)
			// is this a re-delivery (superset of an earlier delivery of the same key)?
			var prev *sess
			for _, p := range byWin[s.g] {
				if len(p.r.IDs) > 0 && containsAll(r.IDs, p.r.IDs) {
					prev = p
				}
			}
			s.prev = prev
			if prev == nil && sp.AL > 0 {
				// the first firing of a session may be overtaken by its own late update: it then shows
				// up as a strict subset, without late rows, of an earlier delivery of the key
				overtaken := false
				for _, p := range byWin[s.g] {
					if len(r.IDs) < len(p.r.IDs) && containsAll(p.r.IDs, r.IDs) {
						lateR, lateP := 0, 0
						for _, id := range r.IDs {
							if er := l.ByID[id]; er != nil && er.Late {
								lateR++
							}
						}
						for _, id := range p.r.IDs {
							if er := l.ByID[id]; er != nil && er.Late {
								lateP++
							}
						}
						if lateR == 0 && lateP > 0 {
							overtaken = true
							e.Violate("C02/first-firing-overtaken-by-late-update", "session", "key %s: the late update %s was delivered before the first firing %s, which then replaced it", s.g, idList(p.r.IDs), idList(r.IDs))
						}
					}
				}
				if overtaken {
					continue
				}
			}
			byWin[s.g] = append(byWin[s.g], s)
			if prev != nil {
				if sp.AL == 0 {
					e.Violate(prop+"/session-reported-twice", "session", "key %s: session with rows %s delivered again (now %s) with ALLOWEDLATENESS=0", s.g, idList(prev.r.IDs), idList(r.IDs))
				} else {
					e.Probe("late_update_redelivery")
					old := map[string]bool{}
					for _, id := range prev.r.IDs {
						old[id] = true
					}
					for _, id := range r.IDs {
						if er := l.ByID[id]; er != nil && !old[id] && !er.Late && !er.IdleRisk {
							e.Violate("C02/late-update-adds-on-time-row", "session", "re-delivery of a session of key %s adds row %s which was not late on arrival", s.g, id)
						}
					}
				}
			} else {
				parts[s.g] = append(parts[s.g], sortedCopy(r.IDs))
			}
			for _, id := range r.IDs {
				if prev == nil || !contains(prev.r.IDs, id) {
					rowSeen[id] = append(rowSeen[id], s)
				}
			}
			if msg := checkAggs(r, l.RawByID); msg != "" {
				e.Violate(prop+"/aggregate-mismatch", "session", "key %s session [%s,%s): %s", s.g, fmtNS(r.WS), fmtNS(r.WE), msg)
			}
			if len(s.ts) == 0 {
				continue
			}
			// gaps inside the session
			merged := false
			for i := 1; i < len(s.ts); i++ {
				if s.ts[i]-s.ts[i-1] > timeout {
					merged = true
					mergedKeys[s.g] = true
					e.Violate("C10/gap-merge", "SessionWindow.Add", "key %s: one session reports events at %s and %s, %s apart (timeout %s) with nothing in between", s.g, fmtNS(s.ts[i-1]), fmtNS(s.ts[i]), time.Duration(s.ts[i]-s.ts[i-1]), time.Duration(timeout))
					break
				}
			}
			if merged {
				continue // bounds of a wrongly merged session are downstream of the same defect
			}
			if prev != nil {
				// a late update is a re-delivery of the same session: same bounds, same window_id
				if r.WS != prev.r.WS || r.WE != prev.r.WE || r.WindowID != prev.r.WindowID {
					e.Violate("C02/late-update-changed-window", "session", "key %s: re-delivery reports [%s,%s) id %s, the previous delivery of the session [%s,%s) id %s", s.g, fmtNS(r.WS), fmtNS(r.WE), r.WindowID, fmtNS(prev.r.WS), fmtNS(prev.r.WE), prev.r.WindowID)
				}
				continue
			}
			hasLate := false
			for _, id := range r.IDs {
				if er := l.ByID[id]; er != nil && er.Late {
					hasLate = true
				}
			}
			if hasLate && sp.AL > 0 {
				continue // a late-updated session keeps the bounds (window_id) of its first firing
			}
			if r.WS != s.ts[0] {
				e.Violate("C10/window-start", "session", "key %s: window_start=%s but the session's earliest accepted event is at %s (rows %s)", s.g, fmtNS(r.WS), fmtNS(s.ts[0]), idList(r.IDs))
			}
			if r.WE != s.ts[len(s.ts)-1]+timeout {
				e.Violate("C10/window-end", "session", "key %s: window_end=%s but latest event %s + timeout %s = %s", s.g, fmtNS(r.WE), fmtNS(s.ts[len(s.ts)-1]), time.Duration(timeout), fmtNS(s.ts[len(s.ts)-1]+timeout))
			}
			// delivered only after the watermark passed the end (first deliveries)
			if prev == nil {
				need := s.ts[len(s.ts)-1] + timeout + sp.OOO
				have := l.maxAcceptedBefore(d.Emits)
				idleOK := false
				if sp.Idle > 0 {
					if !l.IngestKnown {
						idleOK = true
					}
					var last time.Duration = -1
					for _, er := range l.Rows {
						if !er.Usable || er.IngestT > d.T {
							continue
						}
						if er.IdleRisk {
							idleOK = true
						}
						last = er.IngestT
					}
					if last >= 0 && d.T-last >= time.Duration(sp.Idle) {
						idleOK = true
					}
				}
				if have < need && !idleOK {
					cls := "C10/early-delivery"
					if prop == "C02" {
						cls = "C02/early-firing"
					}
					e.Violate(cls, "session", "key %s: session ending %s delivered when only %d rows had been emitted, max accepted ts %s < end+OOO %s", s.g, fmtNS(r.WE), d.Emits, fmtNS(have), fmtNS(need))
				}
			}
		}
	}
	// per-row obligations
	perKey := map[string][]*evRow{}
	for _, er := range l.Rows {
		if er.ID == "flush" || !er.Accepted {
			continue
		}
		perKey[er.KeyS] = append(perKey[er.KeyS], er)
	}
	for _, er := range l.Rows {
		if er.ID == "flush" || !er.Accepted {
			continue
		}
		seen := rowSeen[er.ID]
		if len(seen) > 1 {
			e.Violate(prop+"/event-in-two-sessions", "session", "row %s of key %s is reported in %d different sessions", er.ID, er.KeyS, len(seen))
		}
		if er.Late {
			e.Probe("late_row")
			if len(seen) > 0 {
				e.Probe("late_row_kept")
			}
			continue
		}
		if er.IdleRisk || mergedKeys[er.KeyS] {
			continue
		}
		// completeness: the row's session must have closed by the final watermark if no accepted row of
		// its key lies within timeout after it up to the flush
		e.Oblig(1)
		if len(seen) == 0 && sessionMustHaveClosed(er, perKey[er.KeyS], timeout, l.WMFinal) {
			cls := "C10/on-time-event-never-reported"
			if prop == "C02" {
				cls = "C02/on-time-row-discarded"
			}
			e.Violate(cls, "session", "row %s ts=%s of key %s was not late on arrival (watermark %s) but is in no session result; final watermark %s", er.ID, fmtNS(er.TS), er.KeyS, fmtNS(er.WM), fmtNS(l.WMFinal))
		}
	}
	// in-order keys: no split inside the timeout
	for g, rows := range perKey {
		if mergedKeys[g] {
			continue
		}
		inOrder := true
		for i := 1; i < len(rows); i++ {
			if rows[i].TS < rows[i-1].TS || rows[i].Late || rows[i-1].Late || rows[i].IdleRisk {
				inOrder = false
			}
		}
		if !inOrder || len(rows) < 2 {
			continue
		}
		e.Probe("in_order_key")
		for i := 1; i < len(rows); i++ {
			a, b := rows[i-1], rows[i]
			if b.TS-a.TS > timeout {
				e.Probe("gap_above_timeout")
			}
			if b.TS-a.TS >= timeout {
				continue // the boundary itself may go either way
			}
			sa, sb := rowSeen[a.ID], rowSeen[b.ID]
			if len(sa) == 1 && len(sb) == 1 && sa[0] != sb[0] {
				e.Violate("C10/split-within-timeout", "session", "key %s: in-order events %s (%s) and %s (%s) are %s apart (< timeout %s) but reported in different sessions", g, a.ID, fmtNS(a.TS), b.ID, fmtNS(b.TS), time.Duration(b.TS-a.TS), time.Duration(timeout))
			}
		}
	}
	// late rows (C02 c/d) for sessions
	if prop == "C02" {
		for _, er := range l.Rows {
			if !er.Accepted || !er.Late || er.IdleRisk || er.ID == "flush" || mergedKeys[er.KeyS] {
				continue
			}
			// sessions of the row's key delivered before the row was emitted
			var target *sess
			for _, s := range all {
				if s.g == er.KeyS && s.r.D.Emits <= er.Idx && len(s.ts) > 0 && er.TS >= s.r.WS && er.TS < s.r.WE {
					if target == nil || s.seq > target.seq {
						target = s
					}
				}
			}
			if target == nil || er.WM < target.r.WE+sp.AL {
				// whether or not the session's first delivery had been observed when the row arrived
				// (it may have been collected and still be on its way out): a row is never reported in
				// a session whose end+ALLOWEDLATENESS the watermark had passed on its arrival
				expiredSeen := false
				for _, s := range rowSeen[er.ID] {
					if s.g == er.KeyS && er.WM >= s.r.WE+sp.AL {
						e.Violate("C02/expired-late-row-changed-result", "session/any-delivery", "row %s ts=%s of key %s arrived when the watermark %s had passed end+ALLOWEDLATENESS (%s) of session [%s,%s), yet it is reported in it", er.ID, fmtNS(er.TS), er.KeyS, fmtNS(er.WM), fmtNS(s.r.WE+sp.AL), fmtNS(s.r.WS), fmtNS(s.r.WE))
						expiredSeen = true
						break
					}
				}
				if expiredSeen {
					continue
				}
			}
			if target == nil {
				continue
			}
			e.Oblig(1)
			if er.WM >= target.r.WE+sp.AL {
				e.Probe("late_row_after_allowance")
				if len(rowSeen[er.ID]) > 0 {
					e.Violate("C02/expired-late-row-changed-result", "session", "row %s ts=%s of key %s arrived when the watermark %s had passed end+ALLOWEDLATENESS (%s) of the delivered session containing it, yet it is reported", er.ID, fmtNS(er.TS), er.KeyS, fmtNS(er.WM), fmtNS(target.r.WE+sp.AL))
				}
				continue
			}
			if sp.AL == 0 {
				continue
			}
			e.Probe("late_row_into_fired_window")
			ok := false
			for _, s := range rowSeen[er.ID] {
				if s.seq > target.seq && s.g == er.KeyS {
					ok = true
				}
			}
			if !ok {
				site := "session"
				for _, o := range all {
					// the engine keeps one fired session per key open for late updates: a later session
					// of the key whose end the watermark had passed supersedes it
					if o.g == er.KeyS && o != target && o.r.WE > target.r.WE && o.r.WE <= er.WM {
						site = "session/superseded-by-later-session"
					}
				}
				e.Violate("C02/late-update-missing", site, "late row %s ts=%s of key %s arrived (watermark %s) after its session [%s,%s) had been delivered and before the allowance ended (%s), but no later delivery contains it", er.ID, fmtNS(er.TS), er.KeyS, fmtNS(er.WM), fmtNS(target.r.WS), fmtNS(target.r.WE), fmtNS(target.r.WE+sp.AL))
			}
		}
	}
	if len(mergedKeys) > 0 {
		e.Probe("gap_merge_seen")
	}
	if len(perKey) > 1 {
		e.Probe("multi_key")
	}
	if e.C.xBool("burst") {
		e.Probe("burst_behind_blocked_output")
	}
	if inst == 0 {
		e.R.Summary = map[string]any{"kind": "session", "timeout": durSQL(timeout), "ooo": durSQL(sp.OOO), "al": durSQL(sp.AL), "rows": len(l.Rows), "sessions": len(all), "keys": len(perKey)}
	}
	return parts
}

// sessionMustHaveClosed: under the reference sessioniser the session containing er ends at
// (last event of its run) + timeout; it must have been delivered if that end <= final watermark.
func sessionMustHaveClosed(er *evRow, rows []*evRow, timeout, wmFinal int64) bool {
	var ts []int64
	for _, r := range rows {
		if !r.Late {
			ts = append(ts, r.TS)
		}
	}
	sort.Slice(ts, func(i, j int) bool { return ts[i] < ts[j] })
	last := er.TS
	for _, t := range ts {
		if t > last && t-last <= timeout {
			last = t
		}
	}
	return last+timeout <= wmFinal
}

func contains(a []string, x string) bool {
	for _, y := range a {
		if y == x {
			return true
		}
	}
	return false
}

func containsAll(a, b []string) bool {
	for _, x := range b {
		if !contains(a, x) {
			return false
		}
	}
	return true
}

// buildLedgerFor builds the ledger from the emits addressed to one instance.
func buildLedgerFor(e *Env, sp *evSpec, inst int) *evLedger {
	saved := e.Ops
	var ops []*OpRec
	for _, rec := range e.Ops {
		if rec.Op.K == "emit" && rec.Op.I == inst {
			ops = append(ops, rec)
		}
	}
	e.Ops = ops
	defer func() { e.Ops = saved }()
	if inst != 0 || len(e.Insts) > 1 {
		// ingestion instants are only tracked for single-instance runs
		savedT := e.IngestT
		e.IngestT = nil
		defer func() { e.IngestT = savedT }()
	}
	return buildLedger(e, sp)
}

// compareTwin: for keys whose rows arrive in timestamp order and on time, the delivered
// partitions of the two instances (fed at different speeds) must be identical.
func compareTwin(e *Env, sp *evSpec, l, l1 *evLedger, a, b sessionPart) {
	perKey := map[string][]*evRow{}
	rowsOf := func(l *evLedger) (map[string]string, bool) {
		m := map[string]string{}
		flush := false
		for _, er := range l.Rows {
			if er.ID == "flush" {
				flush = true
			} else {
				m[er.KeyS] += fmt.Sprintf("%s@%d ", er.ID, er.TS)
			}
		}
		return m, flush
	}
	rows0, flush0 := rowsOf(l)
	rows1, flush1 := rowsOf(l1)
	if !flush0 || !flush1 {
		return // (only in cases reshaped by the minimiser) without its flush row an instance has open sessions
	}
	for _, er := range l.Rows {
		if er.ID != "flush" && er.Accepted {
			perKey[er.KeyS] = append(perKey[er.KeyS], er)
		}
	}
	for g, rows := range perKey {
		inOrder := rows0[g] == rows1[g] // both instances were given the same rows of this key, in the same order
		for i := range rows {
			if rows[i].Late || (i > 0 && rows[i].TS < rows[i-1].TS) {
				inOrder = false
			}
		}
		// a gap of exactly the timeout may legitimately go either way (the session's end and the
		// next event coincide with the watermark): such keys are not compared
		for i := 1; i < len(rows); i++ {
			if rows[i].TS-rows[i-1].TS == sp.Size {
				inOrder = false
			}
		}
		if !inOrder {
			continue
		}
		e.Oblig(1)
		e.Probe("twin_compared")
		pa, pb := canonParts(a[g]), canonParts(b[g])
		if pa != pb {
			e.Violate("C10/feed-speed-dependent", "SessionWindow.Add", "key %s (in-order input): sessions delivered at one feed speed %s differ from those at another %s", g, pa, pb)
		}
	}
}

func canonParts(p [][]string) string {
	var s []string
	for _, ids := range p {
		s = append(s, idList(ids))
	}
	sort.Strings(s)
	return fmt.Sprint(s)
}
