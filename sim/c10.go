package sim

// placeholder until the session oracle is written
func checkSessions(e *Env, sp *evSpec, l *evLedger, prop string) {
	e.R.Discard = "session oracle not built yet"
}
