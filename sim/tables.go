package sim

import (
	"fmt"
	"time"

	"github.com/rulego/streamsql/stream"
	"verif.local/simrt"
)

type tableHandle struct {
	mem  *stream.MemoryTableSource
	slow *slowSource
}

// slowSource is the simulator's implementation of the pluggable stream.TableSource seam: a
// dimension table whose Lookup takes fake time (F12).
type slowSource struct {
	e     *Env
	name  string
	inner *stream.MemoryTableSource
	d     time.Duration
	calls int
}

func (s *slowSource) Name() string { return s.name }
func (s *slowSource) Init() error  { return nil }
func (s *slowSource) Close() error { return nil }
func (s *slowSource) Lookup(key any) (map[string]any, bool) {
	s.calls++
	s.e.Fault("table_lookup_slow")
	if s.calls%2 == 0 {
		// slow before reading
		time.Sleep(s.d)
		simrt.Yield("harness:slowlookup:pre")
		return s.inner.Lookup(key)
	}
	row, ok := s.inner.Lookup(key)
	time.Sleep(s.d)
	simrt.Yield("harness:slowlookup:post")
	return row, ok
}

func (e *Env) registerTable(in *Inst, ts TableSpec) error {
	rows := make([]map[string]any, len(ts.Rows))
	for i, r := range ts.Rows {
		rows[i] = copyRow(r)
	}
	if ts.Slow > 0 {
		keys := ts.Keys
		if len(keys) == 0 {
			k, err := in.S.Stream().JoinKeyFields(ts.Name)
			if err != nil {
				return err
			}
			keys = k
		}
		inner := stream.NewMemoryTableSource(ts.Name, keys, rows)
		src := &slowSource{e: e, name: ts.Name, inner: inner, d: time.Duration(ts.Slow)}
		if err := in.S.RegisterTableSource(src); err != nil {
			return err
		}
		in.Tables[ts.Name] = tableHandle{mem: inner, slow: src}
		return nil
	}
	mem, err := in.S.RegisterTable(ts.Name, rows, ts.Keys...)
	if err != nil {
		return fmt.Errorf("RegisterTable(%s): %v", ts.Name, err)
	}
	in.Tables[ts.Name] = tableHandle{mem: mem}
	return nil
}

func (e *Env) tableUpsert(in *Inst, op *Op, rec *OpRec) {
	h := in.Tables[op.T]
	e.Logf("upsert-inv c=%d t=%s %s row=%s", rec.Client, op.T, op.Tag, canon(op.Row))
	if h.slow != nil {
		h.mem.Upsert(copyRow(op.Row))
	} else if err := in.S.UpsertTable(op.T, copyRow(op.Row)); err != nil {
		rec.Err = err.Error()
	}
	e.Logf("upsert-ret c=%d t=%s %s", rec.Client, op.T, op.Tag)
}

func (e *Env) tableDelete(in *Inst, op *Op, rec *OpRec) {
	h := in.Tables[op.T]
	e.Logf("delete-inv c=%d t=%s %s key=%s", rec.Client, op.T, op.Tag, canon(op.Key))
	key := make([]any, len(op.Key))
	copy(key, op.Key)
	h.mem.Delete(key)
	e.Logf("delete-ret c=%d t=%s %s", rec.Client, op.T, op.Tag)
}
