package sim

import (
	"fmt"
	"time"

	"verif.local/simrt"
)

// C01, processing-time variant: every row contributes to exactly one emitted result, for its
// group and for a size-aligned interval; arrival time is not observable exactly, so the interval
// must intersect [emit invoked, emit returned + ingest lag] — checked as: aligned, size long,
// not before the interval of the emit invocation and not after the interval containing the
// delivery.

func genC01PT(rng *simrt.Rand, tier string) *Case {
	c := &Case{X: map[string]any{}, Variant: "processing-time"}
	size := []time.Duration{50 * time.Millisecond, 200 * time.Millisecond, time.Second, 10 * time.Second}[rng.Intn(4)]
	ncols := rng.Intn(3)
	keyCols := []string{"k1", "k2"}[:ncols]
	tuples := genKeyTuples(rng, ncols, rng.Bool(0.4))
	n := 4 + rng.Intn(30)
	var ops []Op
	gaps := []time.Duration{0, 0, time.Millisecond, size / 4, size / 2, size - time.Millisecond, size, size + time.Millisecond, 3 * size}
	for i := 0; i < n; i++ {
		if g := gaps[rng.Intn(len(gaps))]; g > 0 {
			ops = append(ops, Op{K: "sleep", D: int64(g)})
		}
		tup := tuples[rng.Intn(len(tuples))]
		row := Row{"id": fmt.Sprintf("r%03d", i)}
		for k, col := range keyCols {
			if tup[k] == nil && rng.Bool(0.5) {
				continue
			}
			row[col] = tup[k]
		}
		if rng.Intn(6) > 0 {
			row["v"] = rng.Intn(21) - 5
		}
		ops = append(ops, Op{K: "emit", Row: row, Tag: row["id"].(string)})
	}
	c.Clients = [][]Op{ops}
	perf := &PerfSpec{ResultChan: 2 + rng.Intn(4), Workers: 1 + rng.Intn(2), PoolSize: 1 + rng.Intn(3), Strategy: "drop", DataChan: n + 8, WindowOut: n*4 + 64}
	if rng.Bool(0.4) {
		perf.Strategy, perf.BlockTimeout, perf.DataChan = "block", int64(time.Hour), 1+rng.Intn(4)
	}
	sel, grp := sqlKeyList(keyCols)
	c.Insts = []InstSpec{{SQL: fmt.Sprintf("SELECT %s%s FROM stream GROUP BY %sTumblingWindow('%s')", sel, aggSelect, grp, durSQL(int64(size))), Perf: perf, Sinks: []SinkSpec{{Mode: "sync"}}}}
	c.X["size"], c.X["ncols"], c.X["settle_elapsed"] = int64(size), ncols, true
	c.Policy = genPolicy(rng, []time.Duration{time.Microsecond, time.Millisecond, size / 3, size, size + size/2}, false)
	c.Settle = int64(3*size + time.Second)
	c.Horizon = int64(6 * time.Hour)
	c.MaxSteps = 400000
	c.FaultFree = true
	return c
}

func runC01PT(e *Env) {
	sizeN, _ := toInt64(e.C.X["size"])
	keyCols := []string{"k1", "k2"}[:e.C.xInt("ncols", 0)]
	if _, ok := evRun(e); !ok {
		return
	}
	epochNS := fakeEpochMS * int64(time.Millisecond)
	type emitInfo struct {
		row        map[string]any
		tInv, tRet int64
	}
	byID := map[string]*emitInfo{}
	raw := map[string]map[string]any{}
	for _, rec := range e.Ops {
		if rec.Op.K == "emit" {
			id := rec.Op.Row["id"].(string)
			byID[id] = &emitInfo{rec.Op.Row, epochNS + int64(rec.TInv), epochNS + int64(rec.TRet)}
			raw[id] = rec.Op.Row
		}
	}
	seen := map[string]int{}
	type gk struct {
		g    string
		s, e int64
	}
	delivered := map[gk]int{}
	lastStart := map[string]int64{}
	for _, r := range collectWinResults(e, keyCols, "C01") {
		e.Oblig(1)
		g := keyString(r.Keys)
		if r.WE-r.WS != sizeN || floorDiv(r.WS, sizeN)*sizeN != r.WS {
			e.Violate("C01/misaligned-interval", "processing-time", "result reports [%d,%d): not a size-aligned interval of length %s", r.WS, r.WE, durSQL(sizeN))
		}
		k := gk{g, r.WS, r.WE}
		delivered[k]++
		if delivered[k] > 1 {
			e.Violate("C01/interval-reported-twice", "processing-time", "group %s interval [%s,%s) delivered twice", g, fmtNS(r.WS), fmtNS(r.WE))
		}
		if ls, ok := lastStart[g]; ok && r.WS <= ls {
			e.Violate("C01/intervals-not-increasing", "processing-time", "group %s: interval %s delivered after %s", g, fmtNS(r.WS), fmtNS(ls))
		}
		lastStart[g] = r.WS
		tDel := epochNS + int64(r.D.T)
		for _, id := range r.IDs {
			em := byID[id]
			if em == nil {
				e.Violate("C01/unknown-row", "processing-time", "id %q never emitted", id)
				continue
			}
			seen[id]++
			if keyString(rowKeys(em.row, keyCols)) != g {
				e.Violate("C01/row-in-wrong-group", "processing-time", "row %s counted in group %s", id, g)
			}
			// the interval must contain some instant of [emit invoked, delivery]
			if r.WE <= em.tInv || r.WS > tDel {
				e.Violate("C01/row-in-wrong-window", "processing-time", "row %s emitted at %s, delivered at %s, but counted in [%s,%s)", id, fmtNS(em.tInv), fmtNS(tDel), fmtNS(r.WS), fmtNS(r.WE))
			}
		}
		if msg := checkAggs(r.WinResult, raw); msg != "" {
			e.Violate("C01/aggregate-mismatch", "processing-time", "%s", msg)
		}
	}
	for id := range byID {
		e.Oblig(1)
		switch seen[id] {
		case 1:
		case 0:
			e.Violate("C01/on-time-row-never-emitted", "processing-time", "row %s is in no result after the window settled (elapsed time + 3 window sizes of idle time)", id)
		default:
			e.Violate("C01/row-counted-twice", "processing-time", "row %s contributes to %d results", id, seen[id])
		}
	}
	e.R.Summary = map[string]any{"kind": "tumbling/processing-time", "size": durSQL(sizeN), "rows": len(byID), "intervals": len(delivered)}
}
