#!/usr/bin/env python3
"""Regenerates /verif/MANIFEST.json from scripts/props.py (claimed checks) and the fixed
not-applicable list. Run after adding a property check."""
import json, os, sys

VERIF = os.path.dirname(os.path.dirname(os.path.abspath(__file__)))
sys.path.insert(0, os.path.join(VERIF, "scripts"))
import props

NA = {
    "C03": "pure per-batch function evaluated by one goroutine: no schedule, clock, fault or interleaving can change an aggregate value; deciding it is input generation against a reference, not simulation (DESIGN.md §4)",
    "C04": "partitioning of a batch by key tuple is a pure function of the batch; the per-key buffers of counting/session/global windows are exercised with separator-laden keys under C09/C10/C17 (DESIGN.md §4)",
    "C06": "expression value is a function of (text, row, cache content) reachable synchronously with no goroutine, timer or fault; the multi-instance cache aspect is decided under C20 (DESIGN.md §4)",
    "C07": "HAVING/ORDER BY/LIMIT/DISTINCT are a pure per-batch function in the consumer goroutine (DESIGN.md §4)",
    "C11": "rsql.Parse is a pure function of a string: nothing to schedule, time or fault (DESIGN.md §4)",
    "C12": "predicates are compiled once, immutable, and evaluated as pure functions of the row (DESIGN.md §4)",
    "C13": "LIKE / IS NULL are pure string/value functions on every path (DESIGN.md §4)",
}
ALL = ["C%02d" % i for i in range(1, 21)]

manifest = {
    "version": 1,
    "setup_cmd": "./setup.sh",
    "hooks": {
        "guard": "none: /repo carries no hooks. Each check instruments a scratch copy of /repo's working tree (tools/instr, additive text splicing) and builds it with a runtime overlay; see DESIGN.md 2.2/2.3",
        "enable": "scripts/build.sh <scratch>: rsync /repo -> scratch, tools/instr inserts simrt.Yield/Acquire/Release calls, go1.26.8 test -overlay .build/overlay/overlay.json -c; for C05/C14/C20 a third build also copies github.com/expr-lang/expr from the module cache into the scratch directory, instruments vm/vm.go and substitutes it with a replace directive",
        "baseline_off_cmd": "cd /repo && go test -mod=mod -json -vet=off -count=1 -timeout 25m ./...",
        "source_commits": [],
        "add_only": True,
    },
    "engines": [{
        "name": "streamsql-dst",
        "path": "check",
        "serves_properties": sorted(props.PROPS),
        "kind_free_text": "deterministic simulation with fault injection: the real engine in a testing/synctest bubble, a seeded cooperative scheduler over instrumented synchronisation points, runtime select/map-order seams, fault catalogue F1-F14, reference-model oracles, replay files with minimisation",
    }],
    "checks": [],
    "not_applicable": [],
    "notes": "All commands run with cwd=/verif. VERIF_SEED selects the seed family; VERIF_BUDGET_S / VERIF_RUNS / VERIF_JOBS bound a run. ./check selftest is the determinism self-test. known_findings.json lists recorded findings (printed as KNOWN-FINDING) and fixed defects (each with a witness under replays/<id>/fixed-<commit>-*.json; scripts/verify_witnesses.py replays them on the parent of the fix and on the current tree). seeded/<id>-<n>/ holds the independently seeded breaking changes (DESIGN.md 8.6); scripts/evalall.py / scripts/evalseed.py run the checks against them in scratch worktrees of /repo.",
}
for pid in sorted(props.PROPS):
    cfg = props.PROPS[pid]
    manifest["checks"].append({
        "property_id": pid,
        "quick_cmd": "./check %s quick" % pid,
        "thorough_cmd": "./check %s thorough" % pid,
        "evidence_file": "evidence/%s.json" % pid,
        "replay_cmd_template": "./check %s --replay {path}" % pid,
        "engine": "streamsql-dst",
        "technique": "deterministic simulation with fault injection: " + cfg["technique"],
        "level_claimed": {"category": "exploration", "text": cfg["level_text"], "design_ref": "DESIGN.md §3 " + pid},
        "level_note": cfg.get("level_note", "Trusted: go1.26.8 synctest fake clock and quiescence, the additive instrumentation pass, the scheduler's mutex model, the reference model written from the property statement. Sampling, not proof."),
    })
for pid in ALL:
    if pid in props.PROPS:
        continue
    manifest["not_applicable"].append({"property_id": pid, "reason": NA.get(pid, "check not built yet in this commit (planned: DESIGN.md §3 %s)" % pid)})
json.dump(manifest, open(os.path.join(VERIF, "MANIFEST.json"), "w"), indent=1)
print("MANIFEST.json: %d checks, %d not applicable" % (len(manifest["checks"]), len(manifest["not_applicable"])))
