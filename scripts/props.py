"""Per-property check configuration (budgets, dense-build file patterns, expected probes,
manifest texts)."""

PROPS = {
    "C09": {
        "quick_runs": 500, "quick_budget": 60, "thorough_budget": 900, "batch": 20,
        "dense": r"^(window/counting_window|stream/processor_data|stream/handler_result)\.go$", "dense_share": 0.3,
        "needs_fault": False,
        "probes": ["trailing_remainder", "exact_multiple", "multi_key"],
        "technique": "seeded schedule search over ingest / window goroutine / consumer with back-pressure; per-key batch reference model",
        "level_text": "Seeded search over N, key tuples (incl. separator-laden and NULL keys), interleavings of keys, stream lengths N*k and N*k±1, tiny trigger/output buffers under back-pressure, slow consumers, and interleavings of the ingest goroutine, the counting-window goroutine and the consumer; every delivered result is compared with the reference 'rows (i-1)N+1..iN of that key', plus completeness at quiescence and aggregate consistency.",
    },
    "C19": {
        "quick_runs": 600, "quick_budget": 60, "thorough_budget": 900, "batch": 20,
        "dense": r"^stream/(handler_data|strategy|processor_data|stream)\.go$", "dense_share": 0.3,
        "needs_fault": False,
        "probes": ["expanded", "expansion_migrated_rows", "ceiling_reached", "input_dropped"],
        "technique": "seeded schedule search over producers x expansion migration x processor; multiset-conservation oracle at quiescence",
        "level_text": "Seeded search over producer counts, buffer sizes (incl. 1), overflow strategies and their knobs, consumer speeds, clock stalls and interleavings at synchronisation-point granularity (statement granularity in dense builds) of senders, the expansion migration and the processor; conservation, no-duplicate, never-drop-under-block, capacity-ceiling, counter and per-producer-order oracle at quiescence.",
        "level_note": "Trusted: go1.26.8 synctest fake clock, the additive instrumentation pass, the scheduler's mutex model. One recorded finding (C19/order@expand) is reported as KNOWN-FINDING; one defect fixed (b6f4451).",
    },
}
