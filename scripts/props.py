"""Per-property check configuration (budgets, dense-build file patterns, expected probes,
manifest texts)."""

PROPS = {
    "C01": {
        "quick_runs": 600, "quick_budget": 60, "thorough_budget": 900, "batch": 1,
        "dense": r"^(window/tumbling_window|window/watermark|stream/processor_data)\.go$", "dense_share": 0.3,
        "needs_fault": False,
        "probes": ["late_row", "late_row_kept", "on_time_row_before_first_window", "three_or_more_windows"],
        "technique": "seeded schedule search over ingest / watermark / trigger / consumer goroutines on a fake clock; tumbling assigner + watermark ledger as reference model",
        "level_text": "Seeded search over window sizes (1ms-1h, ms and s units), MAXOUTOFORDERNESS (0, <size, =size, >size), key tuples, timestamp sequences (in order, jittered within tolerance, duplicates, boundary and boundary-1, on-time rows earlier than the first arrival's window, long gaps, late rows) and interleavings / starvation / stalls of the ingest, watermark-ticker, trigger and consumer goroutines; processing-time mode on the fake clock with stalls that lose ticks. Every delivered result is checked against the reference assigner (interval, group, exactly-once, aggregates, window_id) and every on-time row must be delivered once its window's end is behind the final watermark.",
    },
    "C02": {
        "quick_runs": 1500, "quick_budget": 90, "thorough_budget": 900, "batch": 1,
        "dense": r"^(window/tumbling_window|window/sliding_window|window/session_window|window/watermark)\.go$", "dense_share": 0.3,
        "needs_fault": True,
        "probes": ["late_row", "late_row_kept", "late_row_after_allowance", "late_row_into_fired_window", "late_update_redelivery", "idle_advance_fired", "garbage_timestamp_rows"],
        "technique": "seeded schedule search with trigger-goroutine starvation, stalls and garbage timestamps; watermark ledger computed from emit order as reference model",
        "level_text": "Seeded search over tumbling/sliding/session event-time queries, MAXOUTOFORDERNESS and ALLOWEDLATENESS settings (0, <size, >=size), IDLETIMEOUT, arrival orders with late and very late rows, bursts with the trigger goroutine starved, stalls, and garbage timestamps (missing, NULL, non-numeric, >= 30 days in the future). A ledger computed from the emit order gives the watermark after every row; checked: no first delivery before some emitted row has ts >= end+OOO (or an ingestion gap >= IDLETIMEOUT was observed), every on-time row is delivered, late rows inside the allowance of an already delivered window cause a re-delivery that is a superset, late rows beyond the allowance of all their windows change nothing, garbage rows appear nowhere.",
        "level_note": "Interpretation (DESIGN.md §3 C02 d): 'older than watermark - ALLOWEDLATENESS' is read per window (end <= watermark - AL). Ingestion instants for the idle-timeout clause are observed through the scheduler's grants of Watermark.UpdateEventTime / IsEventTimeLate lock sites (no hook in /repo). Trusted: synctest clock, instrumentation pass, ledger model.",
    },
    "C08": {
        "quick_runs": 600, "quick_budget": 60, "thorough_budget": 900, "batch": 1,
        "dense": r"^(window/sliding_window|window/watermark|stream/processor_data)\.go$", "dense_share": 0.3,
        "needs_fault": False,
        "probes": ["late_row", "on_time_row_before_first_window", "three_or_more_windows"],
        "technique": "seeded schedule search over ingest / watermark / trigger / consumer goroutines on a fake clock; sliding assigner + watermark ledger as reference model",
        "level_text": "As C01 with SlidingWindow(size, slide): slide dividing size or not, slide = size, slide > size (gaps), size = k*slide up to 6. Every delivered interval must be slide-aligned, size long, not earlier than the slide-aligned start of the earliest accepted event, delivered once and in increasing order, contain every on-time row it covers and nothing else; every covering interval behind the final watermark must be delivered (premature eviction shows as a missing row).",
    },
    "C09": {
        "quick_runs": 500, "quick_budget": 60, "thorough_budget": 900, "batch": 1,
        "dense": r"^(window/counting_window|stream/processor_data|stream/handler_result)\.go$", "dense_share": 0.3,
        "needs_fault": False,
        "probes": ["trailing_remainder", "exact_multiple", "multi_key"],
        "technique": "seeded schedule search over ingest / window goroutine / consumer with back-pressure; per-key batch reference model",
        "level_text": "Seeded search over N, key tuples (incl. separator-laden and NULL keys), interleavings of keys, stream lengths N*k and N*k±1, tiny trigger/output buffers under back-pressure, slow consumers, and interleavings of the ingest goroutine, the counting-window goroutine and the consumer; every delivered result is compared with the reference 'rows (i-1)N+1..iN of that key', plus completeness at quiescence and aggregate consistency.",
    },
    "C19": {
        "quick_runs": 600, "quick_budget": 60, "thorough_budget": 900, "batch": 1,
        "dense": r"^stream/(handler_data|strategy|processor_data|stream)\.go$", "dense_share": 0.3,
        "needs_fault": False,
        "probes": ["expanded", "expansion_migrated_rows", "ceiling_reached", "input_dropped"],
        "technique": "seeded schedule search over producers x expansion migration x processor; multiset-conservation oracle at quiescence",
        "level_text": "Seeded search over producer counts, buffer sizes (incl. 1), overflow strategies and their knobs, consumer speeds, clock stalls and interleavings at synchronisation-point granularity (statement granularity in dense builds) of senders, the expansion migration and the processor; conservation, no-duplicate, never-drop-under-block, capacity-ceiling, counter and per-producer-order oracle at quiescence.",
        "level_note": "Trusted: go1.26.8 synctest fake clock, the additive instrumentation pass, the scheduler's mutex model. One recorded finding (C19/order@expand) is reported as KNOWN-FINDING; one defect fixed (b6f4451).",
    },
}
