"""Per-property check configuration (budgets, dense-build file patterns, expected probes)."""

PROPS = {
    "C19": {
        "quick_runs": 600, "quick_budget": 60, "thorough_budget": 900, "batch": 20,
        "dense": r"^stream/(handler_data|strategy|processor_data|stream)\.go$", "dense_share": 0.3,
        "needs_fault": False,
        "probes": ["expanded", "expansion_migrated_rows", "ceiling_reached", "input_dropped"],
    },
}
