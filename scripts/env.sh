# sourced by every script: offline Go 1.26.8 toolchain; VERIF = the checkout this script lives in
export GOFLAGS=-mod=mod GOPROXY=off GOSUMDB=off GOTOOLCHAIN=local
export GO=${GO:-go1.26.8}
export VERIF=${VERIF:-$(cd "$(dirname "${BASH_SOURCE[0]}")/.." && pwd)}
export VBUILD=$VERIF/.build
