# sourced by every script: offline Go 1.26.8 toolchain
export GOFLAGS=-mod=mod GOPROXY=off GOSUMDB=off GOTOOLCHAIN=local
export GO=${GO:-go1.26.8}
export VERIF=${VERIF:-/verif}
export VBUILD=$VERIF/.build
