#!/bin/bash
# build.sh <scratch-dir> [dense-regexp]
# Copies /repo's working tree to <scratch-dir>/repo, instruments it, builds <scratch-dir>/sim.test.
# Exit 2 on any failure (cannot decide), never 1.
set -uo pipefail
. "$(dirname "$0")/env.sh"
S=$1
DENSE=${2:-}
REPO=${VERIF_REPO:-/repo}
fail() { echo "build.sh: $*" >&2; exit 2; }
[ -x "$VBUILD/instr" ] && [ -f "$VBUILD/overlay/overlay.json" ] || fail "run ./setup.sh first"
rm -rf "$S" && mkdir -p "$S/repo" "$S/sim" || fail "mkdir"
rsync -a --exclude .git --exclude examples --exclude docs --exclude '/test' --exclude '*_test.go' --exclude '*.md' "$REPO"/ "$S/repo/" || fail "copy"
mkdir -p "$S/repo/utils/simrt" && cp "$VERIF"/simrt/*.go "$S/repo/utils/simrt/" || fail "simrt"
if [ -n "$DENSE" ]; then
  "$VBUILD/instr" -dense "$DENSE" "$S/repo" > "$S/instr.log" 2>&1 || { cat "$S/instr.log" >&2; fail "instrumentation"; }
else
  "$VBUILD/instr" "$S/repo" > "$S/instr.log" 2>&1 || { cat "$S/instr.log" >&2; fail "instrumentation"; }
fi
cp "$VERIF"/sim/*.go "$S/sim/" || fail "sim"
cat > "$S/sim/go.mod" <<E2
module verifsim

go 1.26.8

require (
	github.com/anishathalye/porcupine v1.3.0
	github.com/rulego/streamsql v0.0.0
)

replace github.com/rulego/streamsql => ../repo
E2
cp "$REPO/go.sum" "$S/sim/go.sum" 2>/dev/null || true
(cd "$S/sim" && $GO test -overlay "$VBUILD/overlay/overlay.json" -c -o "$S/sim.test" . ) > "$S/build.log" 2>&1 || { cat "$S/build.log" >&2; fail "go test -c"; }
tail -1 "$S/instr.log"
