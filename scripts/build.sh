#!/bin/bash
# build.sh <scratch-dir> [dense-regexp]
# Copies /repo's working tree to <scratch-dir>/repo, instruments it, builds <scratch-dir>/sim.test.
# Exit 2 on any failure (cannot decide), never 1.
set -uo pipefail
. "$(dirname "$0")/env.sh"
S=$1
DENSE=${2:-}
REPO=${VERIF_REPO:-/repo}
fail() { echo "build.sh: $*" >&2; exit 2; }
[ -x "$VBUILD/instr" ] && [ -f "$VBUILD/overlay/overlay.json" ] || fail "run ./setup.sh first"
rm -rf "$S" && mkdir -p "$S/repo" "$S/sim" || fail "mkdir"
rsync -a --exclude .git --exclude examples --exclude docs --exclude '/test' --exclude '*_test.go' --exclude '*.md' "$REPO"/ "$S/repo/" || fail "copy"
# the scheduler runtime is a module of its own (verif.local/simrt), shared by the instrumented
# engine, the harness and - in dependency-dense builds - the instrumented copy of expr-lang
mkdir -p "$S/simrt" && cp "$VERIF"/simrt/*.go "$S/simrt/" && printf 'module verif.local/simrt\n\ngo 1.18\n' > "$S/simrt/go.mod" || fail "simrt"
printf '\nrequire verif.local/simrt v0.0.0\n\nreplace verif.local/simrt => ../simrt\n' >> "$S/repo/go.mod" || fail "repo go.mod"
DEPS=${3:-}
if [ -n "$DEPS" ]; then
  # dependency-dense build: statement-level yields inside expr-lang's VM, so that two goroutines
  # evaluating through shared evaluator state interleave inside an evaluation
  EXPRDIR=$(cd "$S/repo" && $GO list -m -f '{{.Dir}}' github.com/expr-lang/expr) || fail "locate expr-lang"
  cp -r "$EXPRDIR" "$S/exprlang" && chmod -R u+w "$S/exprlang" || fail "copy expr-lang"
  printf '\nrequire verif.local/simrt v0.0.0\n\nreplace verif.local/simrt => ../simrt\n' >> "$S/exprlang/go.mod"
  printf '\nreplace github.com/expr-lang/expr => ../exprlang\n' >> "$S/repo/go.mod"
  "$VBUILD/instr" -only '^vm/vm\.go$' -dense '^vm/vm\.go$' "$S/exprlang" > "$S/instr-deps.log" 2>&1 || { cat "$S/instr-deps.log" >&2; fail "instrumentation of expr-lang"; }
fi
if [ -n "$DENSE" ]; then
  "$VBUILD/instr" -dense "$DENSE" "$S/repo" > "$S/instr.log" 2>&1 || { cat "$S/instr.log" >&2; fail "instrumentation"; }
else
  "$VBUILD/instr" "$S/repo" > "$S/instr.log" 2>&1 || { cat "$S/instr.log" >&2; fail "instrumentation"; }
fi
cp "$VERIF"/sim/*.go "$S/sim/" || fail "sim"
cat > "$S/sim/go.mod" <<E2
module verifsim

go 1.26.8

require (
	github.com/anishathalye/porcupine v1.3.0
	github.com/rulego/streamsql v0.0.0
)

replace github.com/rulego/streamsql => ../repo

require verif.local/simrt v0.0.0

replace verif.local/simrt => ../simrt
E2
if [ -n "$DEPS" ]; then printf '\nreplace github.com/expr-lang/expr => ../exprlang\n' >> "$S/sim/go.mod"; fi
cp "$REPO/go.sum" "$S/sim/go.sum" 2>/dev/null || true
(cd "$S/sim" && $GO test -trimpath -overlay "$VBUILD/overlay/overlay.json" -c -o "$S/sim.test" . ) > "$S/build.log" 2>&1 || { cat "$S/build.log" >&2; fail "go test -c"; }
tail -1 "$S/instr.log"
