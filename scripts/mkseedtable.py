#!/usr/bin/env python3
"""Prints the markdown table of DESIGN.md §8.6 from seeded/*/meta.json."""
import json, os, sys
VERIF = os.path.dirname(os.path.dirname(os.path.abspath(__file__)))
rows = []
for sid in sorted(os.listdir(os.path.join(VERIF, "seeded"))):
    mp = os.path.join(VERIF, "seeded", sid, "meta.json")
    if not os.path.exists(mp):
        continue
    m = json.load(open(mp))
    def fmt(runs):
        out = []
        for prop, r in (runs or {}).items():
            cls = ""
            for d in r.get("detail", []):
                if d.startswith("class="):
                    cls = d.split()[0][len("class="):] + "@" + d.split()[1][len("site="):]
                    break
            out.append("%s %s%s" % (prop, r["result"] + (" (" + r["tier"] + ")" if r.get("tier") else ""), ": " + cls if cls else ""))
        return "; ".join(out)
    first = fmt(m.get("checks_run_first_evaluation")) if "checks_run_first_evaluation" in m else ""
    need = m.get("needs_to_manifest", "")
    rows.append("| %s | %s | %s | %s |" % (sid, need.replace("|", "\\|"), fmt(m.get("checks_run")), first or "—"))
print("| seed | the change and what it needs to manifest | current checks | first evaluation (if different machinery) |")
print("|---|---|---|---|")
print("\n".join(rows))
