#!/usr/bin/env python3
"""Evaluate every seeded change under seeded/ with the current machinery (scripts/evalseed.py per
seed, at /repo HEAD) and record the outcome in seeded/<id>/meta.json under "checks_run".
usage: evalall.py [<seed-id> ...]"""
import json, os, re, subprocess, sys
TB = os.environ.get("VERIF_EVAL_THOROUGH", "240")
VERIF = os.path.dirname(os.path.dirname(os.path.abspath(__file__)))
EXTRA = {"C01-2": ["C02"], "C08-2": ["C02"], "C10-2": ["C02"],
         # input-buffer migration reordering rows: also a violation of C19's per-producer order
         "C01-8": ["C19"], "C05-7": ["C19"], "C09-6": ["C19"], "C14-6": ["C19"], "C15-7": ["C19"], "C17-8": ["C19"]}

def main():
    ids = sys.argv[1:] or sorted(d for d in os.listdir(os.path.join(VERIF, "seeded")) if os.path.isdir(os.path.join(VERIF, "seeded", d)))
    head = subprocess.run(["git", "-C", "/repo", "rev-parse", "--short", "HEAD"], capture_output=True, text=True).stdout.strip()
    mach = subprocess.run(["git", "-C", VERIF, "rev-parse", "--short", "HEAD"], capture_output=True, text=True).stdout.strip()
    for sid in ids:
        d = os.path.join(VERIF, "seeded", sid)
        props = [sid.split("-")[0]] + EXTRA.get(sid, [])
        p = subprocess.run([sys.executable, os.path.join(VERIF, "scripts", "evalseed.py"), d] + props + ["--thorough-budget=" + TB], capture_output=True, text=True)
        runs, cur = {}, None
        for line in p.stdout.splitlines():
            m = re.match(r"^(DETECTED|MISSED|INFRA) (\S+) (\S+)\s*(\S*)", line)
            if m:
                cur = runs.setdefault(m.group(3), {"result": m.group(1).lower(), "tier": m.group(4), "detail": []})
            elif cur is not None and line.startswith("    "):
                cur["detail"].append(re.sub(r"replay=/tmp/evalout-\w+/", "replay=", line.strip())[:400])
        mp = os.path.join(d, "meta.json")
        meta = json.load(open(mp)) if os.path.exists(mp) else {"id": sid}
        if "checks_run" in meta and "checks_run_first_evaluation" not in meta:
            meta["checks_run_first_evaluation"] = meta["checks_run"]
        meta["checks_run"] = runs
        meta["checks_run_at"] = {"repo_commit": head, "verif_commit": mach}
        meta["how_checks_were_run"] = "scripts/evalall.py -> scripts/evalseed.py seeded/%s %s: scratch worktree of /repo HEAD with patch.diff applied, VERIF_REPO=<worktree> ./check <prop> quick, then thorough (%s s) if quick did not report it; the worktree is removed afterwards. Equivalent to git -C /repo apply + ./check + git -C /repo checkout -- ." % (sid, " ".join(props), TB)
        json.dump(meta, open(mp, "w"), indent=1)
        print(sid, {k: v["result"] + ":" + v["tier"] for k, v in runs.items()}, flush=True)
        if p.returncode != 0 or not runs:
            print("  evalseed rc=%d %s" % (p.returncode, (p.stdout + p.stderr)[-400:]), flush=True)

if __name__ == "__main__":
    main()
