#!/usr/bin/env python3
"""Run checks against a seeded change without touching /repo: a scratch worktree of /repo's HEAD
gets the patch, the checks run with VERIF_REPO pointing at it (evidence and replays redirected),
the worktree is removed. usage: evalseed.py <seed-dir> <prop> [<prop> ...] [--thorough-budget S]
Prints one line per (patch, property): DETECTED/MISSED tier class replay."""
import json, os, subprocess, sys, tempfile, shutil

VERIF = os.path.dirname(os.path.dirname(os.path.abspath(__file__)))

def main():
    args = [a for a in sys.argv[1:] if not a.startswith("--")]
    budget = "240"
    base = "HEAD"
    for a in sys.argv[1:]:
        if a.startswith("--thorough-budget="):
            budget = a.split("=")[1]
        if a.startswith("--base="):
            base = a.split("=")[1]
    seed_dir, props = args[0], args[1:]
    patch = os.path.join(seed_dir, "patch.diff")
    wt = tempfile.mkdtemp(prefix="evalwt-", dir="/tmp")
    os.rmdir(wt)
    out = tempfile.mkdtemp(prefix="evalout-", dir="/tmp")
    subprocess.run(["git", "-C", "/repo", "worktree", "add", "-q", wt, base], check=True)
    results = []
    try:
        r = subprocess.run(["git", "-C", wt, "apply", os.path.abspath(patch)], capture_output=True, text=True)
        if r.returncode != 0:
            print("PATCH DOES NOT APPLY:", r.stderr)
            return 2
        env = dict(os.environ, VERIF_REPO=wt, VERIF_EVIDENCE_DIR=os.path.join(out, "evidence"), VERIF_REPLAY_DIR=os.path.join(out, "replays"))
        for prop in props:
            det = None
            for tier, extra in (("quick", {}), ("thorough", {"VERIF_BUDGET_S": budget})):
                e = dict(env, **extra)
                p = subprocess.run([os.path.join(VERIF, "check"), prop, tier], capture_output=True, text=True, env=e, cwd=VERIF)
                lines = [l for l in p.stdout.splitlines() if l.startswith("VIOLATION") or l.startswith("  class=")]
                if p.returncode == 1:
                    det = (tier, lines[:4])
                    break
                if p.returncode == 2:
                    det = ("INFRA-" + tier, (p.stdout + p.stderr)[-600:].splitlines())
                    break
            if det:
                print("DETECTED" if not det[0].startswith("INFRA") else "INFRA", os.path.basename(seed_dir.rstrip("/")), prop, det[0])
                for l in det[1]:
                    print("    " + l[:300])
                # keep the first replay file next to the seed
                rd = os.path.join(out, "replays", prop)
                if os.path.isdir(rd):
                    for f in sorted(os.listdir(rd))[:1]:
                        shutil.copy(os.path.join(rd, f), os.path.join(seed_dir, "replay-%s.json" % prop))
            else:
                print("MISSED", os.path.basename(seed_dir.rstrip("/")), prop)
            results.append((prop, det[0] if det else "missed"))
    finally:
        subprocess.run(["git", "-C", "/repo", "worktree", "remove", "--force", wt])
        shutil.rmtree(out, ignore_errors=True)
    return 0

if __name__ == "__main__":
    sys.exit(main())
