#!/usr/bin/env python3
"""Confirm the two changes of one wave-5 agent and store them as /verif/seeded/<P>-11 and -12.
usage: confirm5.py <P>    (agent worktree /tmp/w5/<P>/zz_seed_demo)"""
import json, os, re, shutil, subprocess, sys, glob
P = sys.argv[1]
SRC = f"/tmp/w5/{P}/zz_seed_demo"
ENV = dict(os.environ, GOFLAGS="-mod=mod", GOPROXY="off", GOSUMDB="off")
HEAD = subprocess.run(["git", "-C", "/repo", "rev-parse", "--short", "HEAD"], capture_output=True, text=True).stdout.strip()

def run(cmd, cwd, timeout=1800):
    try:
        p = subprocess.run(cmd, cwd=cwd, env=ENV, capture_output=True, text=True, timeout=timeout)
        return p.returncode, (p.stdout + p.stderr)
    except subprocess.TimeoutExpired as e:
        return 124, "TIMEOUT"

def testnames(path, n):
    names = re.findall(r"^func (TestDemo%d\w*)\(" % n, open(path).read(), re.M)
    return names

for n in (1, 2):
    sid = f"{P}-{n + 10}"
    diff = os.path.join(SRC, f"change{n}.diff")
    demo = os.path.join(SRC, f"demo{n}_test.go")
    res = {"id": sid, "property": P, "base_commit": HEAD}
    if not (os.path.exists(diff) and os.path.exists(demo)):
        res["confirmed"] = False; res["why"] = "missing files"
        print(sid, res); continue
    names = testnames(demo, n)
    if not names:
        res["confirmed"] = False; res["why"] = "no TestDemo%d function" % n
        print(sid, res); continue
    wt = f"/tmp/w5/cf-{sid}"
    subprocess.run(["git", "-C", "/repo", "worktree", "remove", "--force", wt], capture_output=True)
    subprocess.run(["git", "-C", "/repo", "worktree", "add", "-q", "--detach", wt, "HEAD"], check=True)
    try:
        os.makedirs(os.path.join(wt, "zz_seed_demo"))
        for f in glob.glob(os.path.join(SRC, "*.go")):
            shutil.copy(f, os.path.join(wt, "zz_seed_demo"))
        pat = "^(" + "|".join(names) + ")$"
        democmd = ["go", "test", "-vet=off", "-count=1", "-timeout", "10m", "-run", pat, "./zz_seed_demo"]
        res["demo_cmd"] = " ".join(democmd)
        # without the change: must pass 3 times
        ok = True
        for i in range(3):
            rc, out = run(democmd, wt)
            if rc != 0:
                ok = False; res["demo_without_change_tail"] = out[-800:]; break
        res["demo_without_change"] = "pass" if ok else "fail"
        rc, out = run(["git", "apply", diff], wt)
        res["patch_applies"] = rc == 0
        if rc != 0:
            res["confirmed"] = False; res["why"] = out[-400:]; print(sid, res); continue
        rc, out = run(["go", "build", "./..."], wt)
        res["builds"] = rc == 0
        fails = 0
        for i in range(3):
            rc, out = run(democmd, wt)
            if rc != 0:
                fails += 1; res["demo_with_change_tail"] = out[-1200:]
        res["demo_with_change"] = "fail" if fails == 3 else ("flaky %d/3" % fails if fails else "pass")
        shutil.rmtree(os.path.join(wt, "zz_seed_demo"))
        rc, out = run(["go", "test", "-vet=off", "-count=1", "-timeout", "25m", "./..."], wt, timeout=1700)
        res["existing_suite_with_change"] = "pass" if rc == 0 else "fail"
        res["suite_tail"] = "" if rc == 0 else "\n".join(l for l in out.splitlines() if l.startswith(("FAIL", "--- FAIL", "panic")))[-1500:]
        res["confirmed"] = bool(ok and res["builds"] and fails >= 2 and rc == 0)
    finally:
        subprocess.run(["git", "-C", "/repo", "worktree", "remove", "--force", wt], capture_output=True)
    if res["confirmed"]:
        d = f"/verif/seeded/{sid}"
        os.makedirs(os.path.join(d, "demo_dir"), exist_ok=True)
        shutil.copy(diff, os.path.join(d, "patch.diff"))
        shutil.copy(demo, os.path.join(d, f"demo{n}_test.go"))
        for f in glob.glob(os.path.join(SRC, "*.go")):
            shutil.copy(f, os.path.join(d, "demo_dir"))
        if os.path.exists(os.path.join(SRC, "notes.md")):
            shutil.copy(os.path.join(SRC, "notes.md"), os.path.join(d, "notes.md"))
        json.dump(res, open(os.path.join(d, "confirm.json"), "w"), indent=1)
        meta = {"id": sid, "breaks_property": P, "wave": 5,
                "origin": "written by an independent sub-agent (fifth wave, a second hold-out: evaluated with the machinery frozen) that saw only the property text and its own worktree of /repo at commit " + HEAD,
                "needs_to_manifest": "see notes.md, change %d" % n,
                "files": {"patch": "patch.diff", "demo": res["demo_cmd"] + "   (demo placed at <worktree>/zz_seed_demo/, package demo)",
                          "demo_dir": "demo_dir/ holds all test files of the agent's demo directory",
                          "agent_notes": "notes.md (covers both changes of this agent; change N of the notes is seed %s-(N+10))" % P},
                "confirmed_by_me": {"base_commit": HEAD, "patch_applies_and_builds": True, "demo_without_change": "pass (3 of 3 runs)",
                                    "demo_with_change": res["demo_with_change"], "existing_suite_with_change": "pass",
                                    "how": "scratch worktree of /repo at base_commit; demo run 3x, git apply patch.diff, go build ./..., demo run 3x again, go test -vet=off -count=1 -timeout 25m ./... (script /tmp/w5/confirm5.py, removed afterwards)"}}
        json.dump(meta, open(os.path.join(d, "meta.json"), "w"), indent=1)
    print(sid, json.dumps({k: v for k, v in res.items() if k not in ("demo_with_change_tail",)})[:900], flush=True)
