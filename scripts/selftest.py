"""Determinism self-test (DESIGN.md 2.8): every seed is executed in several fresh processes at
GOMAXPROCS 1, 4 and 16 with all workers busy; full event logs and decision traces are diffed.
Any difference is exit 2. Also reports probes that stayed at zero (reach), which fails the
self-test on the unchanged tree but never a property check."""
import concurrent.futures, json, os, subprocess, sys, time

VERIF = os.path.dirname(os.path.dirname(os.path.abspath(__file__)))


def main(argv):
    import props
    sys.path.insert(0, VERIF)
    import importlib.machinery, importlib.util
    loader = importlib.machinery.SourceFileLoader("check_mod", os.path.join(VERIF, "check"))
    spec = importlib.util.spec_from_loader("check_mod", loader)
    chk = importlib.util.module_from_spec(spec)
    loader.exec_module(chk)
    ids = [a for a in argv if not a.startswith("-")] or sorted(props.PROPS)
    nseeds = int(os.environ.get("VERIF_SELFTEST_SEEDS", "100"))
    tier = os.environ.get("VERIF_TIER", "quick")
    base = int(os.environ.get("VERIF_SEED", "1"))
    scratch = chk.Scratch()
    rc = 0
    try:
        sparse = scratch.build("sparse")
        procs = [1, 4, 16, 1, 16]
        plan = []
        for prop in ids:
            plan.append((prop, "sparse", nseeds))
            cfg = props.PROPS[prop]
            if cfg.get("dense") and os.environ.get("VERIF_SELFTEST_DENSE", "1") != "0":
                plan.append((prop, "dense", max(10, nseeds // 4)))
                if cfg.get("dense_deps"):
                    plan.append((prop, "depsdense", max(10, nseeds // 4)))
        for prop, build, nseeds in plan:
            cfg = props.PROPS[prop]
            env_dense = None
            if build == "sparse":
                binary = sparse
            else:
                binary = scratch.build(build + "-" + prop, cfg["dense"], "expr" if build == "depsdense" else "")
                env_dense = {"VERIF_DENSE": "1"}
            prop_label = prop if build == "sparse" else "%s[%s build]" % (prop, build)
            t0 = time.time()
            jobs = []
            with concurrent.futures.ThreadPoolExecutor(max_workers=chk.JOBS * 2) as ex:
                for i in range(nseeds):
                    seed = chk.derive_seed(base + 17, i)
                    for gp in procs:
                        jobs.append((seed, gp, ex.submit(chk.run_worker, binary,
                                     ["-sim.prop", prop, "-sim.seed", str(seed), "-sim.tier", tier, "-sim.full"], 180, dict(env_dense or {}, GOMAXPROCS=str(gp)))))
                by_seed = {}
                for seed, gp, f in jobs:
                    res, crash = f.result()
                    if crash or not res:
                        print("selftest %s seed %d GOMAXPROCS=%d: worker failed: %s" % (prop, seed, gp, (crash or {}).get("stderr", "")[-800:]))
                        rc = 2
                        continue
                    r = res[-1]
                    key = json.dumps({"digest": r.get("digest"), "trace": r.get("trace_hash"), "log": r.get("log"), "viol": r.get("violations"),
                                      "decisions": r.get("decisions")}, sort_keys=True)
                    by_seed.setdefault(seed, []).append((gp, key, r))
            bad = 0
            ties = 0
            for seed, runs in by_seed.items():
                ties += sum(r.get("ties", 0) for _, _, r in runs)
                if len({k for _, k, _ in runs}) != 1:
                    bad += 1
                    if bad <= 3:
                        a, b = runs[0][2], [r for _, k, r in runs if k != runs[0][1]][0]
                        la, lb = a.get("log") or [], b.get("log") or []
                        first = next((i for i in range(min(len(la), len(lb))) if la[i] != lb[i]), min(len(la), len(lb)))
                        print("selftest %s: seed %d diverged; first differing log line %d:\n  A: %s\n  B: %s" % (
                            prop, seed, first, la[first] if first < len(la) else "<end>", lb[first] if first < len(lb) else "<end>"))
                        da, db = a.get("decisions") or [], b.get("decisions") or []
                        fd = next((i for i in range(min(len(da), len(db))) if da[i] != db[i]), min(len(da), len(db)))
                        print("  first differing decision %d: A=%s B=%s" % (fd, da[fd] if fd < len(da) else None, db[fd] if fd < len(db) else None))
            # replay equivalence: a strict replay from the run's own case + decision list (what a
            # replay file holds) must be the same execution as the run that produced it
            rbad = 0
            rjobs = []
            rp_dir = scratch.dir if hasattr(scratch, "dir") else os.path.dirname(binary)
            with concurrent.futures.ThreadPoolExecutor(max_workers=chk.JOBS) as ex:
                for seed, runs in by_seed.items():
                    r = runs[0][2]
                    if r.get("discard") or r.get("infra") or not r.get("decisions"):
                        continue
                    path = os.path.join(rp_dir, "selfreplay-%s-%d.json" % (prop, seed))
                    json.dump({"property": prop, "class": "", "msg": "", "digest": "", "case": r["case"], "decisions": r["decisions"]}, open(path, "w"))
                    rjobs.append((seed, r, path, ex.submit(chk.run_worker, binary, ["-sim.replay", path, "-sim.full"], 180, None)))
                for seed, r, path, f in rjobs:
                    res, crash = f.result()
                    os.unlink(path)
                    rr = res[-1] if res else {}
                    same = rr.get("digest") == r.get("digest") and rr.get("trace_hash") == r.get("trace_hash") and json.dumps(rr.get("violations"), sort_keys=True) == json.dumps(r.get("violations"), sort_keys=True)
                    if not same:
                        rbad += 1
                        if rbad <= 3:
                            print("selftest %s: seed %d: strict replay of its own decisions differs from the run: digest %s vs %s; violations %s vs %s; %s" % (
                                prop, seed, rr.get("digest"), r.get("digest"), rr.get("violations"), r.get("violations"), (crash or {}).get("stderr", "")[-300:]))
            print("selftest %s: %d strict replays of own decisions: %d differ" % (prop_label, len(rjobs), rbad), flush=True)
            if rbad:
                rc = 2
            print("selftest %s: %d seeds x %d processes (GOMAXPROCS %s): %d diverged, label ties %d, %.1fs" % (
                prop_label, len(by_seed), len(procs), procs, bad, ties, time.time() - t0), flush=True)
            if bad:
                rc = 2
        # sync.Map.Range is not covered by the map seam
        g = subprocess.run(["grep", "-rn", "--include=*.go", r"\.Range(", os.environ.get("VERIF_REPO", "/repo")], capture_output=True, text=True)
        hits = [l for l in g.stdout.splitlines() if "_test.go" not in l and "/examples/" not in l]
        if hits:
            print("selftest: note: .Range( call sites (sync.Map iteration is not controlled by the map seam):\n  " + "\n  ".join(hits[:10]))
    finally:
        scratch.cleanup()
    print("selftest: %s" % ("OK" if rc == 0 else "FAILED"))
    return rc
