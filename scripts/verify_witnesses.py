#!/usr/bin/env python3
"""Replays every witness replays/<prop>/fixed-<commit>-*.json on the parent of <commit> (must
reproduce: ./check --replay exits 1) and on /repo's current tree (must hold: exit 0). Scratch
worktrees of /repo are created under /tmp and removed. usage: verify_witnesses.py [substring]"""
import glob, os, re, subprocess, sys, tempfile
VERIF = os.path.dirname(os.path.dirname(os.path.abspath(__file__)))
bad = 0
flt = sys.argv[1] if len(sys.argv) > 1 else ""
by_commit = {}
for f in sorted(glob.glob(os.path.join(VERIF, "replays", "*", "fixed-*.json"))):
    m = re.match(r"fixed-([0-9a-f]{7})-", os.path.basename(f))
    if m and flt in f:
        by_commit.setdefault(m.group(1), []).append(f)
for fix, files in by_commit.items():
    wt = tempfile.mkdtemp(prefix="witwt-", dir="/tmp"); os.rmdir(wt)
    subprocess.run(["git", "-C", "/repo", "worktree", "add", "-q", "--detach", wt, fix + "^"], check=True)
    try:
        for f in files:
            prop = os.path.basename(os.path.dirname(f))
            p = subprocess.run([os.path.join(VERIF, "check"), prop, "--replay", f], capture_output=True, text=True, env=dict(os.environ, VERIF_REPO=wt), cwd=VERIF)
            q = subprocess.run([os.path.join(VERIF, "check"), prop, "--replay", f], capture_output=True, text=True, cwd=VERIF)
            ok = p.returncode == 1 and q.returncode == 0
            bad += 0 if ok else 1
            print("%s %s: on %s^ rc=%d (want 1), on current tree rc=%d (want 0)%s" % ("ok " if ok else "BAD", os.path.relpath(f, VERIF), fix, p.returncode, q.returncode,
                  "" if ok else "\n   " + (p.stdout + p.stderr)[-300:].replace("\n", "\n   ")), flush=True)
    finally:
        subprocess.run(["git", "-C", "/repo", "worktree", "remove", "--force", wt])
sys.exit(1 if bad else 0)
