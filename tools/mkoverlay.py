#!/usr/bin/env python3
"""Derive the runtime overlay (DESIGN.md 2.3) from the installed go1.26.8 sources.

Three seams, all inert unless the simulator sets the control words:
  runtime/select.go : the cheaprandn call that permutes select poll order -> simSelectRand
  runtime/rand.go   : maps_rand (per-map hash seed, iterator start offsets) -> simMapSeed
                      randinit  (startup seed; fixes aeskeysched/hashkey so that map layouts
                                 for a given per-map seed are identical across processes)
                      simGoid   (goroutine identity for the scheduler's labels)
Fails loudly (exit 2) if an anchor line is not found exactly once.
usage: mkoverlay.py <GOROOT> <outdir>
"""
import json, os, sys

goroot, out = sys.argv[1], sys.argv[2]
os.makedirs(out, exist_ok=True)


def patch(src, edits):
    s = open(src).read()
    for old, new in edits:
        if s.count(old) != 1:
            sys.stderr.write("mkoverlay: anchor %r found %d times in %s\n" % (old, s.count(old), src))
            sys.exit(2)
        s = s.replace(old, new)
    return s


sel = patch(os.path.join(goroot, "src/runtime/select.go"), [
    ("j := cheaprandn(uint32(norder + 1))", "j := simSelectRand(uint32(norder + 1))"),
])
sel += '''

// --- verif simulation seam: select poll order controlled by the simulator ---

//go:linkname simSelectSeed
var simSelectSeed uint64

func simSelectRand(n uint32) uint32 {
	s := simSelectSeed
	if s == 0 {
		return cheaprandn(n)
	}
	x := s + uint64(n)*0x9E3779B97F4A7C15
	x ^= x >> 30
	x *= 0xBF58476D1CE4E5B9
	x ^= x >> 27
	x *= 0x94D049BB133111EB
	x ^= x >> 31
	return uint32(x % uint64(n))
}
'''
open(os.path.join(out, "select.go"), "w").write(sel)

rnd = patch(os.path.join(goroot, "src/runtime/rand.go"), [
    ("func maps_rand() uint64 {\n\treturn rand()\n}",
     "func maps_rand() uint64 {\n\tif s := simMapSeed; s != 0 {\n\t\treturn s\n\t}\n\treturn rand()\n}"),
    ("\tglobalRand.state.Init(*seed)\n\tclear(seed[:])\n",
     "\tfor i := range seed {\n\t\tseed[i] = byte(i*37 + 11) // verif: fixed startup seed (deterministic hash keys)\n\t}\n"
     "\tglobalRand.state.Init(*seed)\n\tclear(seed[:])\n"),
])
rnd += '''

// --- verif simulation seam: map hash seed / iteration offset controlled by the simulator ---

//go:linkname simMapSeed
var simMapSeed uint64

//go:linkname simGoid
func simGoid() uint64 { return getg().goid }
'''
open(os.path.join(out, "rand.go"), "w").write(rnd)

ov = {"Replace": {
    os.path.join(goroot, "src/runtime/select.go"): os.path.join(out, "select.go"),
    os.path.join(goroot, "src/runtime/rand.go"): os.path.join(out, "rand.go"),
}}
json.dump(ov, open(os.path.join(out, "overlay.json"), "w"), indent=1)
print("overlay written to", out)
