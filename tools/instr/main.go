// instr: additive text-splice instrumentation pass (DESIGN.md 2.2).
//
// Inserts cooperative scheduling hooks into a scratch copy of the streamsql tree:
//
//	X.Lock()/X.RLock()          -> simrt.Acquire(&X, w, site); X.Lock()
//	X.Unlock()/X.RUnlock()      -> X.Unlock(); simrt.Release(&X, w)
//	defer X.Unlock()            -> defer simrt.Release(&X, w); defer X.Unlock()
//	X.Do(f) (X a sync.Once)     -> Acquire/Release(&X) around it
//	select {...}                -> Yield before; Yield first in every clause
//	stmt with chan op / close / wg.Wait() / time.Sleep -> Yield before (and after if simple)
//	stmt with sync/atomic call  -> Yield before
//	go f(...)                   -> Yield after in the creator; Yield on entry of the new goroutine
//	dense mode (files matching -dense regexp): Yield before every statement
//
// Source is never re-printed: insertions are spliced at AST byte offsets, so line numbers,
// comments and directives are those of /repo.
//
// usage: instr [-dense regexp] [-v] <root>
package main

import (
	"flag"
	"fmt"
	"go/ast"
	"go/parser"
	"go/token"
	"os"
	"path/filepath"
	"regexp"
	"sort"
	"strings"
)

const rtImport = "verif.local/simrt"

type ins struct {
	off  int
	text string
	ord  int
}

type file struct {
	fn    string // enclosing function declaration (part of every site label)
	path  string
	rel   string
	src   []byte
	fset  *token.FileSet
	ast   *ast.File
	ins   []ins
	dense bool
}

var (
	onceNames = map[string]bool{} // identifiers / field names declared with type sync.Once
	goTargets = map[string]bool{} // names of functions that are the target of a go statement
	verbose   bool
	warnings  int
)

func (f *file) add(p token.Pos, text string) {
	f.ins = append(f.ins, ins{f.fset.Position(p).Offset, text, len(f.ins)})
}
func (f *file) site(n ast.Node, kind string) string {
	p := f.fset.Position(n.Pos())
	return fmt.Sprintf("%s:%d:%s:%s", f.rel, p.Line, kind, f.fn)
}
func (f *file) text(n ast.Node) string {
	return string(f.src[f.fset.Position(n.Pos()).Offset:f.fset.Position(n.End()).Offset])
}

func selCall(e ast.Expr) (recv ast.Expr, name string, nargs int) {
	c, ok := e.(*ast.CallExpr)
	if !ok {
		return nil, "", 0
	}
	s, ok := c.Fun.(*ast.SelectorExpr)
	if !ok {
		return nil, "", 0
	}
	return s.X, s.Sel.Name, len(c.Args)
}

func lockCall(e ast.Expr) (ast.Expr, string) {
	recv, name, n := selCall(e)
	if recv == nil || n != 0 {
		return nil, ""
	}
	switch name {
	case "Lock", "RLock", "Unlock", "RUnlock":
		return recv, name
	}
	return nil, ""
}

func lastName(e ast.Expr) string {
	switch v := e.(type) {
	case *ast.Ident:
		return v.Name
	case *ast.SelectorExpr:
		return v.Sel.Name
	}
	return ""
}

func onceCall(e ast.Expr) ast.Expr {
	recv, name, n := selCall(e)
	if recv == nil || name != "Do" || n != 1 {
		return nil
	}
	if onceNames[lastName(recv)] {
		return recv
	}
	return nil
}

// blocking / wake-capable operation directly inside n (not inside nested blocks or func literals)
func hasSyncOp(n ast.Node) (chanop, atomicop bool) {
	ast.Inspect(n, func(x ast.Node) bool {
		switch v := x.(type) {
		case *ast.FuncLit, *ast.BlockStmt:
			return false
		case *ast.SendStmt:
			chanop = true
		case *ast.UnaryExpr:
			if v.Op == token.ARROW {
				chanop = true
			}
		case *ast.CallExpr:
			if id, ok := v.Fun.(*ast.Ident); ok && id.Name == "close" {
				chanop = true
			}
			if s, ok := v.Fun.(*ast.SelectorExpr); ok {
				if id, ok := s.X.(*ast.Ident); ok {
					if id.Name == "atomic" {
						atomicop = true
					}
					if id.Name == "time" && s.Sel.Name == "Sleep" {
						chanop = true
					}
				}
				if s.Sel.Name == "Wait" && len(v.Args) == 0 {
					chanop = true
				}
			}
		}
		return true
	})
	return
}

func rw(name string) string {
	if strings.HasPrefix(name, "R") {
		return "false"
	}
	return "true"
}

func (f *file) doList(list []ast.Stmt) {
	for _, st := range list {
		if ls, ok := st.(*ast.LabeledStmt); ok {
			// instrument the labelled statement itself where it is simple enough
			st = ls.Stmt
			if _, isFor := st.(*ast.ForStmt); isFor {
				continue
			}
			if _, isRange := st.(*ast.RangeStmt); isRange {
				continue
			}
			if _, isSel := st.(*ast.SelectStmt); isSel {
				// "label: select" — a yield between label and statement is legal
			}
		}
		switch s := st.(type) {
		case *ast.ExprStmt:
			if recv, name := lockCall(s.X); recv != nil {
				if name == "Lock" || name == "RLock" {
					f.add(s.Pos(), fmt.Sprintf("simrt.Acquire(&%s, %s, %q); ", f.text(recv), rw(name), f.site(s, "lock")))
				} else {
					f.add(s.End(), fmt.Sprintf("; simrt.Release(&%s, %s)", f.text(recv), rw(name)))
				}
				continue
			}
			if recv := onceCall(s.X); recv != nil {
				f.add(s.Pos(), fmt.Sprintf("simrt.Acquire(&%s, true, %q); ", f.text(recv), f.site(s, "once")))
				f.add(s.End(), fmt.Sprintf("; simrt.Release(&%s, true)", f.text(recv)))
				continue
			}
		case *ast.DeferStmt:
			if recv, name := lockCall(s.Call); recv != nil && strings.HasSuffix(name, "nlock") {
				f.add(s.Pos(), fmt.Sprintf("defer simrt.Release(&%s, %s); ", f.text(recv), rw(name)))
			}
			continue
		case *ast.GoStmt:
			f.add(s.End(), fmt.Sprintf("; simrt.Yield(%q)", f.site(s, "postgo")))
			if fl, ok := s.Call.Fun.(*ast.FuncLit); ok {
				f.add(fl.Body.Lbrace+1, fmt.Sprintf(" simrt.Yield(%q);", f.site(s, "go")))
			}
			continue
		case *ast.SelectStmt:
			f.add(s.Pos(), fmt.Sprintf("simrt.Yield(%q); ", f.site(s, "sel")))
			for _, cc := range s.Body.List {
				c := cc.(*ast.CommClause)
				f.add(c.Colon+1, fmt.Sprintf(" simrt.Yield(%q);", f.site(c, "case")))
			}
			continue
		case *ast.DeclStmt, *ast.EmptyStmt, *ast.BranchStmt, *ast.CommClause, *ast.CaseClause:
			continue
		}
		chanop, atomicop := hasSyncOp(st)
		switch {
		case chanop:
			f.add(st.Pos(), fmt.Sprintf("simrt.Yield(%q); ", f.site(st, "pre")))
			switch st.(type) {
			case *ast.SendStmt, *ast.ExprStmt, *ast.AssignStmt:
				f.add(st.End(), fmt.Sprintf("; simrt.Yield(%q)", f.site(st, "post")))
			case *ast.ReturnStmt:
			default:
				warnings++
				if verbose {
					fmt.Fprintf(os.Stderr, "instr: note: channel op in compound statement at %s (pre-yield only)\n", f.site(st, ""))
				}
			}
		case atomicop:
			f.add(st.Pos(), fmt.Sprintf("simrt.Yield(%q); ", f.site(st, "atomic")))
		case f.dense:
			f.add(st.Pos(), fmt.Sprintf("simrt.Yield(%q); ", f.site(st, "d")))
		}
	}
}

type visitor struct{ f *file }

func (v visitor) Visit(n ast.Node) ast.Visitor {
	switch b := n.(type) {
	case *ast.CallExpr:
		// X.TryLock() / X.TryRLock() in any expression position: keep the scheduler's mutex model
		// in step with the real outcome
		if recv, name, nargs := selCall(b); recv != nil && nargs == 0 && (name == "TryLock" || name == "TryRLock") {
			w := "true"
			if name == "TryRLock" {
				w = "false"
			}
			v.f.add(b.Pos(), fmt.Sprintf("simrt.TryAcquire(&%s, %s, ", v.f.text(recv), w))
			v.f.add(b.End(), ")")
		}
	case *ast.FuncDecl:
		v.f.fn = b.Name.Name
		if b.Body != nil && goTargets[b.Name.Name] {
			v.f.add(b.Body.Lbrace+1, fmt.Sprintf(" simrt.Yield(%q);", v.f.site(b, "entry")))
		}
	case *ast.BlockStmt:
		v.f.doList(b.List)
	case *ast.CaseClause:
		v.f.doList(b.Body)
	case *ast.CommClause:
		v.f.doList(b.Body)
	}
	return v
}

func isSyncOnce(e ast.Expr) bool {
	s, ok := e.(*ast.SelectorExpr)
	if !ok {
		return false
	}
	id, ok := s.X.(*ast.Ident)
	return ok && id.Name == "sync" && s.Sel.Name == "Once"
}

func collect(f *file) {
	ast.Inspect(f.ast, func(n ast.Node) bool {
		switch v := n.(type) {
		case *ast.Field:
			if isSyncOnce(v.Type) {
				for _, nm := range v.Names {
					onceNames[nm.Name] = true
				}
			}
		case *ast.ValueSpec:
			if v.Type != nil && isSyncOnce(v.Type) {
				for _, nm := range v.Names {
					onceNames[nm.Name] = true
				}
			}
		case *ast.GoStmt:
			if nm := lastName(v.Call.Fun); nm != "" {
				goTargets[nm] = true
			}
		}
		return true
	})
}

func main() {
	denseRe := flag.String("dense", "", "regexp over relative file paths that get statement-level yields")
	onlyRe := flag.String("only", "", "regexp over relative file paths: instrument only these (default: all)")
	flag.BoolVar(&verbose, "v", false, "verbose")
	flag.Parse()
	root := flag.Arg(0)
	if root == "" {
		fmt.Fprintln(os.Stderr, "usage: instr [-dense re] <root>")
		os.Exit(2)
	}
	var dre, ore *regexp.Regexp
	if *denseRe != "" {
		dre = regexp.MustCompile(*denseRe)
	}
	if *onlyRe != "" {
		ore = regexp.MustCompile(*onlyRe)
	}
	var files []*file
	err := filepath.Walk(root, func(p string, info os.FileInfo, err error) error {
		if err != nil {
			return err
		}
		rel, _ := filepath.Rel(root, p)
		if info.IsDir() {
			if rel == "utils/simrt" || rel == "examples" || strings.HasPrefix(filepath.Base(p), ".") && rel != "." {
				return filepath.SkipDir
			}
			return nil
		}
		if !strings.HasSuffix(p, ".go") || strings.HasSuffix(p, "_test.go") {
			return nil
		}
		if ore != nil && !ore.MatchString(rel) {
			return nil
		}
		src, err := os.ReadFile(p)
		if err != nil {
			return err
		}
		fset := token.NewFileSet()
		af, err := parser.ParseFile(fset, p, src, parser.ParseComments)
		if err != nil {
			return err
		}
		f := &file{path: p, rel: rel, src: src, fset: fset, ast: af}
		if dre != nil && dre.MatchString(rel) {
			f.dense = true
		}
		files = append(files, f)
		return nil
	})
	if err != nil {
		fmt.Fprintln(os.Stderr, "instr:", err)
		os.Exit(2)
	}
	for _, f := range files {
		collect(f)
	}
	total := 0
	for _, f := range files {
		ast.Walk(visitor{f}, f.ast)
		if len(f.ins) == 0 {
			continue
		}
		total += len(f.ins)
		f.add(f.ast.Name.End(), fmt.Sprintf("; import simrt %q", rtImport))
		sort.SliceStable(f.ins, func(i, j int) bool {
			if f.ins[i].off != f.ins[j].off {
				return f.ins[i].off > f.ins[j].off
			}
			return f.ins[i].ord > f.ins[j].ord
		})
		out := append([]byte(nil), f.src...)
		for _, in := range f.ins {
			out = append(out[:in.off:in.off], append([]byte(in.text), out[in.off:]...)...)
		}
		if err := os.WriteFile(f.path, out, 0644); err != nil {
			fmt.Fprintln(os.Stderr, "instr:", err)
			os.Exit(2)
		}
		if verbose {
			fmt.Printf("instrumented %s %d\n", f.rel, len(f.ins)-1)
		}
	}
	fmt.Printf("instr: %d files, %d insertions, %d notes\n", len(files), total, warnings)
}
